const b = css`b { color: red }`
const a = styled`a { color: red }`
