// ===== T-std: std::vec::IntoIter as an explicit iterator (R3 for-owned) =====
#[verifier::external_body]
#[verifier::accept_recursive_types(T)]
pub struct VxIntoIter<T> { it: std::vec::IntoIter<T> }
impl<T> VxIntoIter<T> {
    /// the elements not yet yielded, in order
    pub uninterp spec fn rest(&self) -> Seq<T>;
    #[verifier::external_body]
    pub fn next(&mut self) -> (r: Option<T>)
        ensures match r {
            Some(x) => old(self).rest().len() > 0 && x == old(self).rest()[0] && final(self).rest() == old(self).rest().drop_first(),
            None => old(self).rest().len() == 0 && final(self).rest() == old(self).rest(),
        }
    { self.it.next() }
}
#[verifier::external_body]
pub fn vx_into_iter<T>(v: Vec<T>) -> (it: VxIntoIter<T>) ensures it.rest() == v@ { VxIntoIter { it: v.into_iter() } }
