// ===== clause tags: identity functions that say which property a clause belongs to.  `./check <id>` ignores the failure
// of a clause tagged for other properties (an untagged clause belongs to every property that uses the function) =====
pub open spec fn for_c01(b: bool) -> bool { b }
pub open spec fn for_c02(b: bool) -> bool { b }
pub open spec fn for_c03(b: bool) -> bool { b }
pub open spec fn for_c13(b: bool) -> bool { b }
pub open spec fn for_c14(b: bool) -> bool { b }
pub open spec fn for_c18(b: bool) -> bool { b }
pub open spec fn for_c13_c18(b: bool) -> bool { b }
pub open spec fn for_c01_c18(b: bool) -> bool { b }
