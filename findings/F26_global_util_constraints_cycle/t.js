foo(3)
