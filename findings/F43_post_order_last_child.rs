// F43 (C01 / C19): append to `mod test` of crates/core/src/traversal.rs and run `cargo test -p ast-grep-core vx_post_nested`
// before db41318: debug build panics 'assertion failed: depth >= self.match_depth' (traversal.rs, Post::calibrate_for_match);
// release build (`cargo test --release ..`): "!!x: reference=[1..3] visit=[1..3, 0..3]" -- the enclosing unary_expression is reported too.
  fn post_order_with_kind(node: Node<StrDoc<Tsx>>, m: &crate::matcher::KindMatcher<Tsx>) -> Vec<Range<usize>> {
    let mut ret: Vec<_> = node.children().flat_map(|n| post_order_with_kind(n, m)).collect();
    if ret.is_empty() && node.matches(m) { ret.push(node.range()); }
    ret
  }
  #[test]
  fn vx_post_nested_direct_parent() {
    for case in ["!!x", "!!!x; !y", "a = !(!x)"] {
      let grep = Tsx.ast_grep(case);
      let m = crate::matcher::KindMatcher::new("unary_expression", Tsx);
      let recur = post_order_with_kind(grep.root(), &m);
      let visit: Vec<_> = Visitor::new(&m).algorithm::<PostOrder>().reentrant(false).visit(grep.root()).map(|n| n.range()).collect();
      println!("{case}: reference={recur:?} visit={visit:?}");
      assert_eq!(recur, visit, "{case}");
    }
  }
