/*@include prelude/node.rs@*/
/*@include prelude/envstub.rs@*/
/*@include prelude/cowenv.rs@*/
