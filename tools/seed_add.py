#!/usr/bin/env python3
"""tools/seed_add.py <prop> <m> <needs...>: copy a confirmed seed from /tmp/seed/<prop>/seed_out/<m> into
/verif/seeded/<prop>-<m>/, apply it to /repo, run the property's quick check, undo it, record the outcome."""
import json, os, shutil, subprocess, sys
prop, m = sys.argv[1], sys.argv[2]
needs = " ".join(sys.argv[3:])
src = os.path.join(os.environ.get("SEED_ROOT", "/tmp/seed"), prop, "seed_out", os.environ.get("SEED_SRC", m))
dst = f"/verif/seeded/{prop}-{m}"
os.makedirs(dst, exist_ok=True)
if os.path.isdir(src):
    for f in os.listdir(src):
        if f.startswith(("patch", "demo", "notes")):
            shutil.copy(os.path.join(src, f), os.path.join(dst, f))
if not needs and os.path.exists(os.path.join(dst, "meta.json")):
    needs = json.load(open(os.path.join(dst, "meta.json")))["needs_to_manifest"]
confirm = ""
for log in ("/tmp/confirm1.log", "/tmp/confirm2.log", "/tmp/confirm3.log", "/tmp/confirm4.log"):
    if os.path.exists(log):
        for ln in open(log):
            if ln.startswith("CONFIRM") and f"{prop}/" in ln.replace("seed_out", prop) and f"/{m}:" in ln:
                pass
# the patch is applied to a scratch copy of /repo's working tree (never to /repo itself); with VERIF_REPO set the check
# writes its evidence / replay files under .work/scratch_* and leaves /verif/evidence alone
scratch = "/tmp/seedrepo_%d" % os.getpid()
subprocess.run(["rsync", "-a", "--exclude=/target", "--exclude=/.git", "--exclude=/npm", "/repo/", scratch + "/"], check=True)
r = subprocess.run(["patch", "-p1", "-s", "-d", scratch, "-i", os.path.join(dst, "patch.diff")])
out, rc = "", None
if r.returncode == 0:
    env = dict(os.environ, VERIF_REPO=scratch, VERIF_KANI_WORK="/verif/.work/kani_mut")
    p = subprocess.run(["./check", prop, "quick"], cwd="/verif", capture_output=True, text=True, env=env)
    out, rc = p.stdout, p.returncode
shutil.rmtree(scratch, ignore_errors=True)
lines = [l for l in out.splitlines() if l.startswith(("VIOLATION", "UNDECIDED", "OK"))]
meta = {
    "breaks_property": prop,
    "needs_to_manifest": needs,
    "origin": "written by a fresh sub-agent given only the property text and a scratch worktree; confirmed with tools/confirm_seed.sh (demo passes on HEAD, fails with the patch; cargo test --workspace stays green with the patch)",
    "ran": f"patch applied to a scratch copy of /repo; VERIF_REPO=<copy> ./check {prop} quick",
    "check_exit_code": rc,
    "check_output": [l[:300] for l in lines],
    "detected": rc == 1,
}
json.dump(meta, open(os.path.join(dst, "meta.json"), "w"), indent=1)
print(prop, m, "rc", rc, [l[:160] for l in lines][:2])
