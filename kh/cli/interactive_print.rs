// Kani harnesses for crates/cli/src/print/interactive_print.rs::apply_rewrite (child module, scratch copy only)
use super::*;

fn any_ascii<const N: usize>(buf: &mut [u8; N]) -> usize {
  let len: usize = kani::any();
  kani::assume(len <= N);
  for i in 0..N {
    let b: u8 = kani::any();
    kani::assume(b == b'a' || b == b'\n' || b == b'b');
    buf[i] = b;
  }
  len
}

/// C18/C06: the written content is the old content with exactly the accepted ranges substituted
/// (ranges ordered, disjoint, in bounds -- what process_diffs_interactive hands over)
#[kani::proof]
#[kani::unwind(8)]
fn apply_rewrite_two_edits_len5() {
  let mut buf = [0u8; 5];
  let len = any_ascii(&mut buf);
  let old = unsafe { String::from_utf8_unchecked(buf[..len].to_vec()) };
  let (s1, e1, s2, e2): (usize, usize, usize, usize) = (kani::any(), kani::any(), kani::any(), kani::any());
  kani::assume(s1 <= e1 && e1 <= s2 && s2 <= e2 && e2 <= len);
  let two: bool = kani::any();
  let r1 = if kani::any() { "X" } else { "" };
  let r2 = if kani::any() { "YZ" } else { "" };
  let mut contents = vec![InteractiveDiff { replacement: r1.to_string(), range: s1..e1, first_line: 0, display: () }];
  if two {
    contents.push(InteractiveDiff { replacement: r2.to_string(), range: s2..e2, first_line: 0, display: () });
  }
  let diffs = Diffs { path: PathBuf::new(), old_source: old, contents };
  let got = apply_rewrite(diffs);
  // reference splice
  let mut want: Vec<u8> = Vec::new();
  want.extend_from_slice(&buf[..s1]);
  want.extend_from_slice(r1.as_bytes());
  if two {
    want.extend_from_slice(&buf[e1..s2]);
    want.extend_from_slice(r2.as_bytes());
    want.extend_from_slice(&buf[e2..len]);
  } else {
    want.extend_from_slice(&buf[e1..len]);
  }
  assert!(got.as_bytes() == &want[..]);
}
