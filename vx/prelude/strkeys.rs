// ===== T-std: HashMap<String, V> behaves as a map keyed by the string CONTENT (trusted axioms; vstd ships
// key-model axioms only for integer/bool keys) =====
pub broadcast axiom fn axiom_string_key_model()
    ensures #[trigger] vstd::std_specs::hash::obeys_key_model::<String>();
/// the String with a given content; Strings are determined by their content
pub uninterp spec fn string_of(s: Seq<char>) -> String;
pub broadcast axiom fn axiom_string_of(s: Seq<char>) ensures #[trigger] string_of(s)@ == s;
pub broadcast axiom fn axiom_string_ext(a: String) ensures #[trigger] string_of(a@) == a;
/// HashMap<String,_>::get(&str) / contains_key(&str): Borrow<str> looks the content up
pub broadcast axiom fn axiom_str_contains<V>(m: Map<String, V>, k: &str)
    ensures #[trigger] vstd::std_specs::hash::contains_borrowed_key::<String, V, str>(m, k) <==> m.contains_key(string_of(k@));
pub broadcast axiom fn axiom_str_maps<V>(m: Map<String, V>, k: &str, v: V)
    ensures #[trigger] vstd::std_specs::hash::maps_borrowed_key_to_value::<String, V, str>(m, k, v) <==> (m.contains_key(string_of(k@)) && m[string_of(k@)] == v);
pub broadcast group group_string_keys { axiom_string_key_model, axiom_string_of, axiom_string_ext, axiom_str_contains, axiom_str_maps }

/// a String-keyed map viewed as a map over the key contents
pub open spec fn sview<V>(m: Map<String, V>) -> Map<Seq<char>, V> {
    Map::new(m.dom().map(|k: String| k@), |s: Seq<char>| m[string_of(s)])
}
pub proof fn lemma_sview_contains<V>(m: Map<String, V>, s: Seq<char>)
    ensures sview(m).contains_key(s) <==> m.contains_key(string_of(s)),
            sview(m).contains_key(s) ==> sview(m)[s] == m[string_of(s)]
{
    broadcast use group_string_keys;
    if m.contains_key(string_of(s)) { assert(m.dom().contains(string_of(s))); assert(string_of(s)@ == s); }
}
pub proof fn lemma_sview_insert<V>(m0: Map<String, V>, k: String, v: V)
    ensures sview(m0.insert(k, v)) == sview(m0).insert(k@, v)
{
    broadcast use group_string_keys;
    let f = |k: String| k@;
    m0.dom().lemma_set_map_insert_commute(k, f);
    assert(m0.insert(k, v).dom() == m0.dom().insert(k));
    assert(string_of(k@) == k);
    assert forall|s: Seq<char>| s != k@ implies string_of(s) != k by {}
    assert(sview(m0.insert(k, v)).dom() =~= sview(m0).insert(k@, v).dom());
    assert(sview(m0.insert(k, v)) =~= sview(m0).insert(k@, v));
}

/// R3 for-values shim: `&m[k]` for a key yielded by `m.keys()`
#[verifier::external_body]
pub fn vx_map_index<'a, V>(m: &'a std::collections::HashMap<String, V>, k: &String) -> (r: &'a V)
    requires m@.contains_key(*k)
    ensures *r == m@[*k]
{ &m[k] }

/// R3 for-keys / for-values shim: the keys of the map, each exactly once (the order is the map's, i.e. unspecified)
#[verifier::external_body]
pub fn vx_map_keys<'a, V>(m: &'a std::collections::HashMap<String, V>) -> (ks: Vec<&'a String>)
    ensures
      forall|j: int| 0 <= j < ks@.len() ==> m@.contains_key(*#[trigger] ks@[j]),
      forall|k: String| m@.contains_key(k) ==> exists|j: int| 0 <= j < ks@.len() && *#[trigger] ks@[j] == k,
      forall|i: int, j: int| 0 <= i < j < ks@.len() ==> *ks@[i] != *ks@[j],
{ m.keys().collect() }
