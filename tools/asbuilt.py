#!/usr/bin/env python3
"""tools/asbuilt.py: the per-property 'as built' section of DESIGN.md, generated from props.py (the same texts go into
MANIFEST.json and evidence/<id>.json)."""
import sys
sys.path.insert(0, "/verif")
import props
out = []
for pid in sorted(props.PROPS):
    sp = props.PROPS[pid]
    units = [u if isinstance(u, str) else "%s (functions matching /%s/)" % (u[0], u[1]) for u in sp.get("units", [])]
    out.append("#### %s" % pid)
    out.append("* units: " + (", ".join(units) or "none"))
    ks = sp.get("kani", [])
    if ks:
        out.append("* Kani harnesses: " + "; ".join("%s::%s (%s)" % (k["crate"], k["name"], "complete, loop-free" if k.get("complete") else "bounded: " + str(k.get("bound"))) + (" [thorough only]" if k.get("tier") == "thorough" else "") for k in ks))
    for d in sp.get("decided", []):
        out.append("* decided: " + d)
    for d in sp.get("not_decided", []):
        out.append("* NOT decided: " + d)
    for d in sp.get("assumptions", []):
        out.append("* assumption: " + d)
    out.append("")
for pid, why in sorted(getattr(props, "NOT_APPLICABLE", {}).items()):
    out.append("#### %s -- not applicable" % pid)
    out.append("* " + (why if isinstance(why, str) else str(why)))
    out.append("")
print("\n".join(out))
