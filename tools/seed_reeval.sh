#!/bin/bash
# re-run the property check against every recorded seed (applies each patch to /repo, checks, reverts)
cd /verif
for d in seeded/*/; do
  id=$(basename $d); prop=${id%%-*}; m=${id##*-}
  tools/seed_add.py $prop $m
done
