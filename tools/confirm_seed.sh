#!/bin/bash
# tools/confirm_seed.sh <worktree> <seed dir (with patch.diff + demo.sh|demo.rs)> [file-to-append-demo.rs-to] [test-filter] [crate]
# confirms: demo passes on HEAD, fails with the patch; the touched crates' tests stay green with the patch
wt=$1; sd=$2; appendto=$3; filter=$4; crate=$5
cd $wt || exit 9
git checkout -q -- . ; git clean -fdq -e seed_out -e target >/dev/null 2>&1
run_demo() {
  if [ -f $sd/demo.sh ]; then
    cargo build --offline -q -p ast-grep 2>/dev/null
    (cd $wt && timeout 300 bash $sd/demo.sh >/tmp/demo_$$.out 2>&1); echo $?
  else
    cp $appendto /tmp/orig_$$.rs
    cat $sd/demo.rs >> $appendto
    (timeout 900 cargo test --offline -q -p $crate $filter >/tmp/demo_$$.out 2>&1); rc=$?
    cp /tmp/orig_$$.rs $appendto
    echo $rc
  fi
}
head_rc=$(run_demo)
git apply $sd/patch.diff || { echo "PATCH-FAIL"; exit 9; }
mut_rc=$(run_demo)
suite=$(timeout 1800 cargo test --offline --workspace 2>&1 | grep -E "^test result" | awk '{f+=$6} END {print "failed=" f+0}')
git checkout -q -- .
echo "CONFIRM $(basename $(dirname $sd))/$(basename $sd): demo_on_head_rc=$head_rc demo_with_patch_rc=$mut_rc suite_with_patch:$suite"
