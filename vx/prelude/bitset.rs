// ===== T-dep: bit_set::BitSet stand-in (trusted specs; the real type is a dependency) =====
#[verifier::external_body]
pub struct BitSet { _p: () }
impl View for BitSet {
    type V = Set<usize>;
    uninterp spec fn view(&self) -> Set<usize>;
}
impl Clone for BitSet {
    #[verifier::external_body]
    fn clone(&self) -> (r: Self) ensures r@ == self@ { unimplemented!() }
}
impl BitSet {
    #[verifier::external_body]
    pub fn new() -> (r: BitSet) ensures r@ == Set::<usize>::empty() { unimplemented!() }
    #[verifier::external_body]
    pub fn contains(&self, k: usize) -> (b: bool) ensures b == self@.contains(k) { unimplemented!() }
    #[verifier::external_body]
    pub fn insert(&mut self, k: usize) -> (b: bool) ensures final(self)@ == old(self)@.insert(k) { unimplemented!() }
    #[verifier::external_body]
    pub fn union_with(&mut self, o: &BitSet) ensures final(self)@ == old(self)@.union(o@) { unimplemented!() }
    #[verifier::external_body]
    pub fn intersect_with(&mut self, o: &BitSet) ensures final(self)@ == old(self)@.intersect(o@) { unimplemented!() }
    #[verifier::external_body]
    pub fn is_empty(&self) -> (b: bool) ensures b == (self@ == Set::<usize>::empty()) { unimplemented!() }
}
/// R4 shim for `s1.intersection(s2).collect()`
#[verifier::external_body]
pub fn vx_bitset_intersection(s1: &BitSet, s2: &BitSet) -> (r: BitSet) ensures r@ == s1@.intersect(s2@) { unimplemented!() }

pub open spec fn kinds_view(k: Option<BitSet>) -> Option<Set<usize>> {
    match k { Some(s) => Some(s@), None => None }
}
