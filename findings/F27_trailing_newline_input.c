#include <a.h>
int x;
int y;
