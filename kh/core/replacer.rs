// Kani harnesses for crates/core/src/replacer.rs::split_first_meta_var (child module, scratch copy only)
use super::*;

const ALPHA: [u8; 6] = [b'$', b'A', b'a', b'_', b'1', b' '];

fn is_name_char(b: u8) -> bool {
  b.is_ascii_uppercase() || b == b'_' || b.is_ascii_digit()
}

/// C07/C20: in a fix template `$NAME` / `$$$NAME` with NAME = [A-Z_][A-Z_0-9]* is a variable (the longest
/// such run); a NAME that is a transform key = the transformed variable (one to three sigils: C12 / F35), otherwise one or two
/// sigils = single capture, three = multi capture; anything else (lower-case, digit-first, lone sigils) is literal text.
/// returns (class, consumed, sigils): class 0 = literal, 1 = Single, 2 = Multiple, 3 = Transformed
fn reference(s: &[u8], is_transform: impl Fn(&[u8]) -> bool) -> (u8, usize, usize) {
  let mut n = 0;
  while n < s.len() && n < 3 && s[n] == b'$' {
    n += 1;
  }
  let mut e = n;
  while e < s.len() && is_name_char(s[e]) {
    e += 1;
  }
  if e == n || s[n].is_ascii_digit() {
    return (0, 0, n);
  }
  let name = &s[n..e];
  if is_transform(name) {
    (3, e, n)
  } else if n == 3 {
    (2, e, n)
  } else {
    (1, e, n)
  }
}

fn check<const N: usize>(with_transform: bool) {
  let mut buf = [0u8; N];
  let len: usize = kani::any();
  kani::assume(len >= 1 && len <= N);
  for i in 0..N {
    let k: usize = kani::any();
    kani::assume(k < ALPHA.len());
    buf[i] = ALPHA[k];
  }
  kani::assume(buf[0] == b'$'); // precondition of split_first_meta_var (its debug_assert)
  let s = unsafe { std::str::from_utf8_unchecked(&buf[..len]) };
  let transforms: Vec<String> = if with_transform { vec!["A".to_string()] } else { vec![] };
  let got = split_first_meta_var(s, '$', &transforms);
  let (class, consumed, sig) = reference(&buf[..len], |name| with_transform && name == b"A");
  match got {
    None => assert!(class == 0),
    Some((var, skipped)) => {
      assert!(skipped == consumed);
      // the consumed prefix is sigils + name: the name is the variable's name
      let (c, name): (u8, &str) = match &var {
        MetaVarExtract::Single(n) => (1, n),
        MetaVarExtract::Multiple(n) => (2, n),
        MetaVarExtract::Transformed(n) => (3, n),
      };
      assert!(c == class);
      assert!(name.as_bytes() == &buf[sig..consumed]);
    }
  }
}

#[kani::proof]
#[kani::unwind(7)]
fn split_first_meta_var_len5() {
  check::<5>(false);
}

#[kani::proof]
#[kani::unwind(6)]
fn split_first_meta_var_transform_len4() {
  check::<4>(true);
}
