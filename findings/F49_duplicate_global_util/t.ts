foo(3, "x")
