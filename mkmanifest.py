#!/usr/bin/env python3
"""regenerates MANIFEST.json from props.py (single source of truth)"""
import json, os, sys
sys.path.insert(0, os.path.dirname(os.path.abspath(__file__)))
import props

ALL = ["C%02d" % i for i in range(1, 21)]
checks = []
for pid in ALL:
    if pid not in props.PROPS:
        continue
    p = props.PROPS[pid]
    bounded = [h for h in p.get("kani", []) if not h.get("complete")]
    checks.append({
        "property_id": pid,
        "quick_cmd": "./check %s quick" % pid,
        "thorough_cmd": "./check %s thorough" % pid,
        "evidence_file": "/verif/evidence/%s.json" % pid,
        "replay_cmd_template": "./check --replay {path}",
        "engine": "verus+kani",
        "level_claimed": {
            "category": "proof",
            "text": p.get("level_text") or ("Contract-based deductive verification of the real functions: decided clauses: "
                     + "; ".join(p.get("decided", [])) + ". NOT decided: " + "; ".join(p.get("not_decided", []))),
            "design_ref": "DESIGN.md section 4." + pid,
        },
        "level_note": "Trusted: Verus/z3, Kani/CBMC, the extraction rules R1-R6 (erasure-checked every run), the prelude axioms echoed in evidence.coverage.trusted_base. "
                      + ("Bounded stand-ins (never counted as proved): " + "; ".join("%s [%s]" % (h["name"], h["bound"]) for h in bounded) + ". " if bounded else "")
                      + " ".join(p.get("assumptions", [])),
        "technique": p.get("technique", "contract-based deductive verification (Verus requires/ensures/invariants woven into the extracted real functions"
                      + ("; Kani harnesses on the real crate" if p.get("kani") else "") + ")"),
    })
man = {
    "version": 1,
    "setup_cmd": "mkdir -p /verif/.work /verif/evidence && python3 -c 'import json' && verus --version >/dev/null",
    "hooks": {
        "guard": "cfg(kani) (no hook is committed to /repo: the Kani harness modules are appended to a scratch copy of the working tree on every run; Verus reads the source text)",
        "enable": "kh/kani_run.py rsyncs /repo's working tree to /verif/.work/kani/src and appends `#[cfg(kani)] #[path=..] mod verif_kani;`; cargo kani sets cfg(kani)",
        "baseline_off_cmd": "cd /repo && cargo test --workspace --no-fail-fast --offline",
        "source_commits": [],
        "add_only": True,
    },
    "engines": [
        {"name": "vx", "path": "/verif/vx/vx.py", "serves_properties": [c["property_id"] for c in checks],
         "kind_free_text": "mechanical extraction of real items + contract weaving + Verus"},
        {"name": "kh", "path": "/verif/kh/kani_run.py", "serves_properties": [pid for pid in ALL if props.PROPS.get(pid, {}).get("kani")],
         "kind_free_text": "Kani harnesses compiled inside a scratch copy of the real crates"},
    ],
    "checks": checks,
    "notes": "exit 2 = undecided (lost anchor / unsupported construct / rlimit): never an alarm. See DESIGN.md.",
    "not_applicable": [{"property_id": k, "reason": v} for k, v in props.NOT_APPLICABLE.items() if k not in props.PROPS],
}
json.dump(man, open(os.path.join(os.path.dirname(os.path.abspath(__file__)), "MANIFEST.json"), "w"), indent=1)
print("MANIFEST.json: %d checks, %d not applicable" % (len(checks), len(man["not_applicable"])))
