a;
b;
