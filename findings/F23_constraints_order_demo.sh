#!/bin/bash
# Side finding on UNMODIFIED HEAD (not a seeded mutation): two constraints that bind the same
# new meta variable are applied in the HashMap order of MetaVarEnv::single_matched
# (crates/core/src/meta_var.rs, match_constraints), so message and fix change with the hash seed.
# Observed on HEAD: 16x `got(1)` / 14x `got(2)` in 30 launches.
BIN="${1:-$(dirname "$0")/../target/debug/ast-grep}"; BIN="$(readlink -f "$BIN")"
W="$(mktemp -d)"; trap 'rm -rf "$W"' EXIT; cd "$W"
echo 'pair(f(1, 2), g(2, 1))' > a.ts
cat > r.yml <<'Y'
id: t
language: TypeScript
message: shared number $N
rule: {pattern: 'pair($A, $B)'}
constraints:
  A: {has: {kind: number, pattern: $N, stopBy: end}}
  B: {has: {kind: number, pattern: $N, stopBy: end}}
fix: got($N)
Y
for i in $(seq 1 30); do timeout 20 "$BIN" scan -r r.yml --color never a.ts 2>&1 | grep 'got('; done | sort | uniq -c
