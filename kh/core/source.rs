// Kani harnesses for crates/core/src/source.rs (child module of the real file, scratch copy only).
// Bounded companions of the Verus unit `source`: they keep deciding when a refactor changes the loop shape the
// Verus rewrite rules key on.
use super::*;

/// C16 / C19: get_char_column(offset) == number of characters between the previous line break and the offset,
/// for every valid UTF-8 text of at most 4 bytes and every char-boundary offset
#[kani::proof]
#[kani::unwind(6)]
fn get_char_column_len4() {
  let bytes: [u8; 4] = kani::any();
  let len: usize = kani::any();
  kani::assume(len <= 4);
  if let Ok(s) = std::str::from_utf8(&bytes[..len]) {
    let offset: usize = kani::any();
    kani::assume(offset <= len);
    kani::assume(s.is_char_boundary(offset));
    // reference: walk forward, counting characters since the last line break
    let mut col = 0usize;
    let mut byte_col = 0usize;
    let mut i = 0usize;
    while i < offset {
      let b = bytes[i];
      let w = if b < 0x80 { 1 } else if b < 0xE0 { 2 } else if b < 0xF0 { 3 } else { 4 };
      if b == b'\n' { col = 0; byte_col = 0; } else { col += 1; byte_col += w; }
      i += w;
    }
    // the callers pass the byte column of the offset (Position::column): a correct implementation may use it
    let hint = byte_col;
    let owned = unsafe { String::from_utf8_unchecked(bytes[..len].to_vec()) };
    let got = owned.get_char_column(hint, offset);
    assert!(got == col);
  }
}
