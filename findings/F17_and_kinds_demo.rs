// append to crates/config/src/rule/relational_rule.rs and run: cargo test -p ast-grep-config f17_and_kinds
#[cfg(test)]
mod verif_demo_f17 {
  use super::*;
  use crate::test::TypeScript as TS;
  use ast_grep_core::matcher::KindMatcher;
  use ast_grep_core::ops::Op;
  use ast_grep_core::matcher::MatcherExt;
  use ast_grep_core::Matcher;
  use crate::from_str;
  use crate::rule::deserialize_env::DeserializeEnv;
  #[test]
  fn f17_and_kinds() {
    let env = DeserializeEnv::new(TS::Tsx);
    let ser = from_str("has: {kind: number}").unwrap();
    let rule = env.deserialize_rule(ser).unwrap();
    let m = Op::every(rule).and(KindMatcher::new("number", TS::Tsx));
    let grep = TS::Tsx.ast_grep("1;");
    // brute force: try every node individually
    let brute: Vec<_> = grep.root().dfs().filter(|n| m.match_node(n.clone()).is_some()).map(|n| n.kind().to_string()).collect();
    let fast: Vec<_> = grep.root().find_all(&m).map(|n| n.kind().to_string()).collect();
    println!("brute={brute:?} fast={fast:?} kinds={:?}", m.potential_kinds());
    assert_eq!(brute.len(), fast.len());
  }
}
