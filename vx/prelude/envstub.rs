#[verifier::external_body]
#[verifier::reject_recursive_types(D)]
pub struct MetaVarEnv<'t, D: Doc> { _p: PhantomData<&'t D> }
impl<'t, D: Doc> View for MetaVarEnv<'t, D> {
    type V = GEnv;
    uninterp spec fn view(&self) -> GEnv;
}
impl<'t, D: Doc> Clone for MetaVarEnv<'t, D> {
    #[verifier::external_body]
    fn clone(&self) -> (r: Self) ensures r@ == self@ { unimplemented!() }
}
