// Kani harnesses for crates/core/src/replacer/indent.rs (child module, scratch copy only); C = String (bytes)
use super::*;

// tab included: only spaces are indentation, a tab is ordinary text
const ALPHA: [u8; 4] = [b' ', b'\n', b'a', b'\t'];

fn any_bytes<const N: usize>(buf: &mut [u8; N]) -> usize {
  let len: usize = kani::any();
  kani::assume(len <= N);
  for i in 0..N {
    let k: usize = kani::any();
    kani::assume(k < ALPHA.len());
    buf[i] = ALPHA[k];
  }
  len
}

/// indentation at the end of `src` = number of spaces that follow the last line break (or the start of a
/// short text) provided nothing but spaces... precisely: the run of spaces right after the last '\n'
fn ref_indent(src: &[u8]) -> usize {
  // position after the last newline
  let mut p = src.len();
  let mut found = false;
  while p > 0 {
    if src[p - 1] == b'\n' {
      found = true;
      break;
    }
    p -= 1;
  }
  let start = if found { p } else { 0 };
  let mut n = 0;
  while start + n < src.len() && src[start + n] == b' ' {
    n += 1;
  }
  n
}

#[kani::proof]
#[kani::unwind(10)]
fn get_indent_at_offset_len8() {
  let mut buf = [0u8; 8];
  let len = any_bytes(&mut buf);
  let src = &buf[..len];
  // (texts shorter than MAX_LOOK_AHEAD = 512: the look-behind window is the whole text)
  assert!(get_indent_at_offset::<String>(src) == ref_indent(src));
}

/// every continuation line starts with at least `orig` spaces (the property's restriction)
fn well_indented(lines: &[u8], orig: usize) -> bool {
  let mut i = 0;
  while i < lines.len() {
    if lines[i] == b'\n' {
      let mut k = 0;
      while k < orig {
        if i + 1 + k >= lines.len() || lines[i + 1 + k] != b' ' {
          return false;
        }
        k += 1;
      }
    }
    i += 1;
  }
  true
}

/// C07: each continuation line keeps its indentation relative to the first line, shifted from `orig` to
/// `new`; everything else is copied verbatim
fn ref_shift(lines: &[u8], orig: usize, new: usize, out: &mut [u8; 32]) -> usize {
  let mut o = 0;
  let mut i = 0;
  while i < lines.len() {
    out[o] = lines[i];
    o += 1;
    if lines[i] == b'\n' {
      // drop `orig` spaces, add `new`
      i += orig;
      let mut k = 0;
      while k < new {
        out[o] = b' ';
        o += 1;
        k += 1;
      }
    }
    i += 1;
  }
  o
}

fn check_shift<const N: usize>() {
  let mut buf = [0u8; N];
  let len = any_bytes(&mut buf);
  let lines = &buf[..len];
  let orig: usize = kani::any();
  let new: usize = kani::any();
  kani::assume(orig <= 1 && new <= 1);
  kani::assume(well_indented(lines, orig));
  let got = indent_lines::<String>(new, DeindentedExtract::MultiLine(lines, orig));
  let mut want = [0u8; 32];
  let wl = ref_shift(lines, orig, new, &mut want);
  assert!(got.len() == wl);
  let mut i = 0;
  while i < wl {
    assert!(got[i] == want[i]);
    i += 1;
  }
}

#[kani::proof]
#[kani::unwind(10)]
fn indent_lines_shift_len4() {
  check_shift::<4>();
}

/// self-rewrite is a no-op: re-inserting an extracted range at its own indentation returns the range
#[kani::proof]
#[kani::unwind(7)]
fn extract_reinsert_identity_len4() {
  let mut buf = [0u8; 4];
  let len = any_bytes(&mut buf);
  let a: usize = kani::any();
  let b: usize = kani::any();
  kani::assume(a <= b && b <= len);
  let s = unsafe { String::from_utf8_unchecked(buf[..len].to_vec()) };
  let at = get_indent_at_offset::<String>(&buf[..a]);
  let ex = extract_with_deindent(&s, a..b);
  let back = indent_lines::<String>(at, ex);
  assert!(&*back == &buf[a..b]);
}
