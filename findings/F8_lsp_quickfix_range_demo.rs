// append to crates/lsp/src/utils.rs; cargo test -p ast-grep-lsp f8_demo
#[cfg(test)]
mod f8_demo {
  use super::*;
  use ast_grep_config::{from_yaml_string, GlobalRules};
  use ast_grep_language::SupportLang;
  use ast_grep_core::AstGrep;

  #[test]
  fn quick_fix_is_the_cli_edit() {
    let yaml = r"
id: drop-b
language: JavaScript
rule: {pattern: b, inside: {kind: array}}
fix: {template: '', expandEnd: {regex: ','}}
";
    let globals = GlobalRules::default();
    let rule = from_yaml_string::<SupportLang>(yaml, &globals).unwrap().pop().unwrap();
    let src = "[a, b, c]";
    let grep: AstGrep<StrDoc<SupportLang>> = AstGrep::new(src, SupportLang::JavaScript);
    let nm = grep.root().find(&rule.matcher).expect("should match");
    // the edit of the CLI / library
    let fixer = rule.matcher.fixer.as_ref().unwrap();
    let edit = nm.make_edit(&rule.matcher, fixer);
    let mut cli = src.to_string();
    cli.replace_range(edit.position..edit.position + edit.deleted_length, std::str::from_utf8(&edit.inserted_text).unwrap());
    // the edit of the language server's quick fix
    let diag = convert_match_to_diagnostic(nm, &rule);
    let doc = TextDocumentIdentifier::new(Url::parse("file:///a.js").unwrap());
    let action = diagnostic_to_code_action(&doc, diag).expect("has fix");
    let te = &action.edit.unwrap().changes.unwrap()[&doc.uri][0];
    assert_eq!(te.range.start.line, 0);
    let (s, e) = (te.range.start.character as usize, te.range.end.character as usize);
    let mut lsp = src.to_string();
    lsp.replace_range(s..e, &te.new_text);
    assert_eq!(cli, lsp, "CLI edit vs LSP quick-fix edit");
  }
}
