// Kani harnesses for crates/config/src/combined.rs::parse_suppression_set (child module, scratch copy only)
use super::*;

const ALPHA: [u8; 4] = [b':', b',', b' ', b'a'];

/// C14: the comment lists nothing (suppress everything) iff nothing follows the marker; otherwise the listed ids
/// are the comma separated, trimmed words after the colon
#[kani::proof]
#[kani::unwind(24)]
fn parse_suppression_set_suffix3() {
  let mut buf = *b"// ast-grep-ignore    ";
  let base = 18; // length of "// ast-grep-ignore"
  let len: usize = kani::any();
  kani::assume(len <= 3);
  for i in 0..3 {
    let k: usize = kani::any();
    kani::assume(k < ALPHA.len());
    buf[base + i] = ALPHA[k];
  }
  let text = unsafe { std::str::from_utf8_unchecked(&buf[..base + len]) };
  let got = parse_suppression_set(text);
  let suffix = &buf[base..base + len];
  let all_space = suffix.iter().all(|b| *b == b' ');
  if all_space {
    // nothing listed: suppress every rule
    assert!(got.is_none());
  } else if suffix.iter().position(|b| *b != b' ') .map(|p| suffix[p]) == Some(b':') {
    // a list follows the colon
    assert!(got.is_some());
  }
  std::mem::forget(got);
}
