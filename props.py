"""Property -> machinery map (read by ./check).  See DESIGN.md section 4 for the clause-level story."""

def K(crate, name, what, bound=None, complete=False, tier="quick"):
    return {"crate": crate, "name": name, "what": what, "bound": bound, "complete": complete, "tier": tier}

KINDS = r"potential_kinds|compute_kinds|::new$|::inner$"
MATCH = r"match_node_with_env"
OPS_DECIDED_C04 = "frame law on trait Matcher (None => env unchanged; Some => env exactly the reference env) proved for &T, MatchAll, MatchNone, Op, Or, Not, And, All, Any"
PROPS = {
    "C01": {
        "units": [("ops", KINDS), ("rule_core", KINDS + "|do_match|with_"), ("rule", KINDS), ("combined", r"CombinedScan|lemma"), ("pattern", KINDS + "|match_node_impl|match_node_non_recursive|fixed_string"), ("atomic", KINDS), "find_all", ("referent", KINDS + "|eval_"), ("nth_matcher", KINDS), "traversal", "visit", "scan"],
        "kani": [],
        "decided": ["FindAllNodes::next returns the first remaining node (pre-order) that the matcher matches when tried from an empty environment: the kind filter drops nothing",
                    "Pre::next / Pre::calibrate_for_match (unit traversal): the dfs iterator yields exactly the pre-order of the subtree; calibrating after a match skips exactly the subtree of the matched node",
                    "Visit::next (unit visit; behind Node::replace_all and the interactive printer): reports the first remaining node that matches when tried individually (named filter respected), then continues right behind it (reentrant) or behind its whole subtree (overlap-free) -- nothing else is dropped", "potential_kinds of every matcher in ops.rs/matcher.rs over-approximates the kinds of nodes it can match (trait-level ensures); All/Any cached kinds sound (type invariant established by new via compute_kinds)"],
        "not_decided": ["run.rs/scan.rs wiring, injected languages, ordering across files", "the literal prefilter beyond its signature guard: that the longest token text occurs in every matching file (PatternNode::fixed_string is an iterator fold; node text containment is a tree-sitter fact)"],
        "assumptions": [],
    },
    "C02": {
        "units": [("align", r"match_node_impl|match_nodes_impl_recursive|may_match_ellipsis_impl|match_single_node_while_skip_trivial"), ("strictness", r"MatchStrictness::match_terminal|Aggregator>::match_terminal|Aggregator>::match_meta_var|match_leaf_meta_var"), "preprocess"],
        "kani": [],
        "decided": ["if the pattern tree mirrors the node -- same kinds, same token text, same shape, with any number of sub-trees replaced by distinct `$VAR` holes that are not bound yet (a hole marked as named replacing a named node) -- then match_node_impl answers MatchedBoth at EVERY strictness level and the environment grows by exactly {hole -> the sub-tree it replaced}; in particular code free of `$` matches itself (unbounded; proved through the real mutually recursive alignment engine against the trait-level Aggregator contract, which unit strictness discharges for Cow<MetaVarEnv> via match_leaf_meta_var and MetaVarEnv::insert's contract)"],
        "not_decided": ["`$$$VAR` replacing a trailing run of siblings (the ellipsis path is only proved sound, C03)",
                        "that the pattern text parses to the same tree shape as the code (23 tree-sitter grammars behind FFI) and that convert_node_to_pattern / extract_meta_var produce the mirror tree: outside both verifiers"],
        "assumptions": ["T-node: children lists and token text as reported by tree-sitter", "MetaVarEnv::insert accepts a free name (unit meta_var proves insert against match_variable)"],
    },
    "C03": {
        "units": ["strictness", ("pattern", r"match_node_impl|match_node_non_recursive|get_match_len"), "align"],
        "kani": [],
        "decided": ["the whole alignment engine (unit align: match_node_impl, match_nodes_impl_recursive, may_match_ellipsis_impl, match_single_node_while_skip_trivial, match_ellipsis, try_get_ellipsis_mode -- mutually recursive, real text): whenever it reports a match there IS an alignment in the sense of the property -- relation justified/aligned: kinds agree (ERROR = wildcard), named tokens agree on text (except signature), `$$$` absorbs a run of consecutive siblings, every candidate left unmatched is skippable under the strictness (trailing ones under should_skip_trailing), every pattern token left unmatched is an unnamed one the strictness lets go; plus termination and no failing unwrap",
                    "match_terminal == the documented strictness table (kinds agree incl. ERROR wildcard; named terminals need equal text except under signature; only unnamed / comment candidates are ever skipped; only unnamed goal terminals are skipped)",
                    "should_skip_trailing table", "named holes bind only named nodes (match_leaf_meta_var)",
                    "$$$VAR binds a prefix of the run handed over, minus the skipped trailing trivia (consecutive siblings)",
                    "ComputeEnd records the end offset of a node of the aligned region"],
        "not_decided": ["existence of a legal alignment for child lists (match_nodes_impl_recursive / may_match_ellipsis_impl: Peekable state machine over FFI-backed iterators)"],
        "assumptions": ["MetaVarEnv::insert / insert_multi obey the statements in prelude/env_ops.rs"],
    },
    "C04": {
        "units": [("ops", MATCH), ("rule_core", MATCH + "|do_match"), ("rule", MATCH + "|match_and_add_label"), ("pattern", MATCH), "meta_var", ("atomic", MATCH), ("nth_matcher", MATCH)],
        "kani": [],
        "decided": [OPS_DECIDED_C04, "MetaVarEnv::insert / insert_multi bind iff every earlier occurrence is structurally identical (named nodes pairwise for $$$), and change nothing otherwise; match_variable / match_multi_var decide exactly that", "Pattern::match_node_with_env commits bindings only when the pattern matches (scratch Cow)"],
        "not_decided": ["relational rules / ReferentRule / StopBy::find (closures capturing &mut env): frame assumed"],
        "assumptions": [],
    },
    "C05": {
        "units": [("ops", MATCH), ("rule", MATCH + "|match_and_add_label"), "nth_child", ("nth_matcher", MATCH), ("atomic", MATCH + "|try_new|::new$")],
        "kani": [
                 K("config", "numeric_position_exact", "numeric nthChild position selects exactly that 1-based index; values beyond i32 are rejected, not truncated", complete=True),
                 K("config", "parse_an_b_len4", "parse_an_b vs reference An+B grammar", bound="strings over {9,1,n,+,-,space}, length <= 4"),
                 K("config", "parse_an_b_len7", "parse_an_b vs reference An+B grammar", bound="strings over {9,1,n,+,-,space}, length <= 7", tier="thorough")],
        "decided": ["all = left fold threading env on the same node; any = first alternative from the original env; not = negation binding nothing; and/or as documented"],
        "not_decided": ["inside/has/precedes/follows, stopBy, field (closures + tree-sitter cursors)"],
        "assumptions": [],
    },
    "C06": {
        "units": [("replacer", r"replace_by|make_edit|get_replaced_range|deref|get_node"), ("source", r"accept_edit"), ("fixer", r"get_replaced_range"), "rewrite", "cli_print"],
        "kani": [],
        "decided": ["Rewrite::compute with joinBy (unit rewrite): the result is the replacement texts of the rewriters' edits that start inside the rewritten text, in document order, separated by the joiner, an edit overlapping the previously kept one dropped; no arithmetic or index panic whatever edits the rewriters' fixes produce",
                    "NodeMatch::replace_by: the edit covers exactly the matched node's extent",
                    "NodeMatch::make_edit: (position, position+deleted_length) == the replacer's range, text == the replacer's text",
                    "default replaced range = node start .. start + matched prefix length (<= node end)",
                    "Fixer range: default range without expansion; with expansion start <= node start and end >= node end",
                    "String::accept_edit: result == old[..p] ++ inserted ++ old[p+d..] (every byte outside the range preserved)"],
        "not_decided": ["UTF-8 validity / char boundaries of node ranges (tree-sitter), expand_start/expand_end (closures)", "rewriters (transform/rewrite.rs), interactive apply_rewrite"],
        "assumptions": ["node ranges lie on char boundaries and inside the document (T-node)"],
    },
    "C07": {
        "units": ["indent", "template"],
        "kani": [K("core", "split_first_meta_var_len5", "fix-template variable scanner vs the spelling table ($A/$$A single, $$$A multi, longest [A-Z_0-9]* name, digit-first/lower-case/lone sigils literal)", bound="strings over {$,A,a,_,1,space}, length <= 5"),
                 K("core", "split_first_meta_var_transform_len4", "same with a transform key", bound="length <= 4"),
                 K("core", "get_indent_at_offset_len8", "indentation at an offset = run of SPACES after the last line break (tabs are text)", bound="bytes over {space,newline,a,tab}, length <= 8 (< MAX_LOOK_AHEAD)")],
        "decided": ["template variable scanner (split_first_meta_var) for the stated bounds only",
                    "fix templates (unit template, unbounded, D::Source = String): create_template cuts the template LOSSLESSLY into literal fragments and variable slots, each slot the variable spelled there (split_first_meta_var) with the indentation of its template line, and never slices inside a character; replace_fixer == fragment 0, then per slot the variable's text (nothing if unbound) and the next fragment, copied unchanged; maybe_get_var == the source text first-to-last captured node (or the transformed string), re-indented from the indentation of the line it starts on to the slot's",
                    "indentation (unit indent, unbounded, C = String): get_indent_at_offset == leading spaces of the line the prefix ends on (512-unit window; tabs are text); extract_with_deindent / deindent_slice attach exactly that indentation to a multi-line capture and none to a single-line one; indent_lines == reindent(text, original, target): first line untouched, every further line gains (target - original) spaces or loses (original - target) leading spaces when it has them; indent_lines_impl / remove_indent line by line"],
        "not_decided": ["create_template / indent_lines / remove_indent / extract_with_deindent: the harnesses written for them (kh/core/template.rs, kh/core/indent.rs) exhaust CBMC's memory even at 3-4 bytes (Vec<String>, Cow, split/strip_prefix adapters) and Verus rejects the iterator adapters: NOT decided",
                        "replace_fixer / maybe_get_var (need a Node)", "string_case"],
        "assumptions": [],
    },
    "C08": {
        "units": ["replacer", ("fixer", r"get_replaced_range|generate_replacement"), "cli_print"],
        "kani": [],
        "decided": ["trait Replacer: get_replaced_range == spec_range for every impl in core (str, Root, &T) and for config::Fixer; a reference to a replacer has the replacer's range and text (forwarding)",
                    "NodeMatch::make_edit builds THE edit from that range and text"],
        "not_decided": ["the CLI / sg test / LSP processes themselves; lsp/utils.rs from_node_match (uses replace_by: node range, see DESIGN F8)"],
        "assumptions": [],
    },
    "C12": {
        "units": [("fixer", r"parse|with_transform|from_str"), "deserialize_env", ("rule_core", r"do_match"), "check_var"],
        "kani": [],
        "decided": ["Fixer::parse (string and object form): every key of `transform` is a Transformed slot of the fix template"],
        "not_decided": ["check_var_*, TopologicalSort (planned), run-time replacement of slots (C07)"],
        "assumptions": ["TemplateFix::with_transform marks exactly the given keys as transformed (Kani harness create_template under C07)"],
    },
    "C10": {
        "units": [("source", r"position_for_offset|accept_edit"), "edit"],
        "kani": [],
        "decided": ["position_for_offset(input, o) == (count of '\\n' in input[..o], bytes since the last '\\n') for every input and offset",
                    "String::accept_edit: text == old[..p] ++ ins ++ old[p+d..] and the six InputEdit fields equal the protocol values",
                    "perform_edit applies the edit to the old tree exactly once; Root::do_edit satisfies the precondition of the incremental parse (one edit, right descriptor) and leaves a clean tree for the spliced text"],
        "not_decided": ["tree-sitter re-parse with a correctly edited old tree equals a fresh parse (assumed contract of the dependency)"],
        "assumptions": ["tree_sitter::Point is a plain (row, column) carrier"],
    },
    "C11": {
        "units": [("strictness", r"match_meta_var|match_leaf_meta_var"), "nth_child", "rewrite", "deserialize_env", "transformation", ("template", r"create_template")],
        "kani": [K("config", "numeric_position_exact", "numeric nthChild: no panic, no truncation", complete=True),
                 K("config", "parse_an_b_len4", "parse_an_b: no panic/overflow", bound="strings over {9,1,n,+,-,space}, length <= 4"),
                 K("config", "used_vars_no_panic_len3", "Transformation::used_vars never panics (empty / multi-byte / sigil-less sources)", bound="every UTF-8 string of <= 3 bytes"),
                 K("config", "parse_an_b_len11", "parse_an_b: no overflow on 11-digit numbers", bound="digit strings over {9,1,n}, length <= 11", tier="thorough")],
        "decided": ["debug assertions of the leaf matcher are proof obligations (R5)", "nthChild parsing never overflows"],
        "not_decided": ["serde_yaml / regex / globset internals; stack depth for deeply nested YAML"],
        "assumptions": [],
    },
    "C13": {
        "units": [("scan", r"into_result")],
        "kani": [],
        "decided": ["ScanResultInner::into_result: the per-rule findings of a document leave the hash map in the RULES' order (by rule index, i.e. by (has fix, id) as CombinedScan::new sorted them) -- the same in every run and for every hash seed; with the unused-suppression rule and separate fixes the fixable findings are ordered by start offset"],
        "not_decided": ["topological order of utils / transforms (TopologicalSort over HashMap<&str, _>: recursion through closures over string-keyed maps), reordering of rule files, RuleCollection::for_path, snapshot files (serde with ordered maps)", "that rule ids are distinct (duplicate ids are rejected elsewhere)"],
        "assumptions": ["sort_unstable_by_key sorts (std)"],
    },
    "C14": {
        "units": [("combined", r"MaySuppressed|Suppressions"), "scan"],
        "kani": [],
        "decided": ["MaySuppressed::suppressed_id: silenced iff a suppression governs the line and lists the rule id or lists nothing; reports that suppression's node id",
                    "Suppressions::collect: an ignore comment alone on its line registers for the NEXT line, a trailing one for its own line, with the ids parsed from its text; other nodes register nothing",
                    "Suppressions::check_suppression: a finding is governed by the suppression registered for the line where it starts",
                    "CombinedScan::scan (unit scan): a finding of rule R on node N is dropped iff the suppression governing N's line covers R, every other rule still fires on N; the unused suppressions reported are exactly the comment nodes that registered a suppression which silenced nothing"],
        "not_decided": ["where comments sit (tree-sitter prev()/start_pos), comment detection by kind name, CLI records"],
        "assumptions": ["HashSet<String>::contains(&str) is set membership on the string content"],
    },
    "C15": {
        "units": ["rule_collection", "rule_overwrite"],
        "kani": [],
        "decided": ["RuleCollection::try_new: a rule whose severity is off is dropped; a rule without files/ignores is tenured in the (unique) bucket of its language, in input order; every other rule is contingent, in input order; nothing else is stored",
                    "ContingentRule::matches_path: ignores win, then files must match when present",
                    "RuleOverwrite::new / read_severity / find / overwrite: per-rule --<sev>=ID wins over a blanket --<sev>; later flags (error, warning, info, hint, off order) win for the same id; without a flag the rule keeps its severity"],
        "not_decided": ["globset semantics, directory walk, language detection tables, clap parsing, exit status accumulation (scan.rs), get_rule_from_lang (iterator adapters)"],
        "assumptions": ["L instantiated with a concrete language tag (R6)"],
    },
    "C16": {
        "units": [("source", r"get_char_column"), "display", "positions"],
        "kani": [K("core", "get_char_column_len4", "get_char_column vs characters-since-last-line-break, every valid UTF-8 text and boundary offset (bounded companion of the Verus proof)", bound="valid UTF-8 texts of at most 4 bytes")],
        "decided": ["Node::display_context: the shown text is a contiguous run of WHOLE lines around the match (starts at a line start, ends at a line end), with exactly `before`/`after` extra lines unless the file ends first, and start_line is the line of its first byte", "String::get_char_column(offset) == number of UTF-8 lead bytes between the previous line break and the offset, for every text and offset",
                    "json_print::get_range: byteOffset is the node's byte range and start/end are (line breaks before, characters since the last one) of those offsets -- through Node::start_pos/end_pos/range and Position::column (relative to T-node: tree-sitter's byte offsets and points agree with the text)"],
        "not_decided": ["JSON separators / brackets (write!/serde_json), charCount (chars().count()), MatchMerger, path:line:text printing"],
        "assumptions": ["offset lies on a char boundary (tree-sitter node ranges)"],
    },
    "C18": {
        "units": ["cli_print", "scan"],
        "kani": [],
        "decided": ["Diff::generate: the CLI's edit (range, text) is NodeMatch::make_edit with the rule's Fixer", "apply_rewrite: the written content == old content with exactly the accepted (ordered, disjoint, in-bounds) ranges substituted (unbounded, Verus)",
                    "process_diffs_interactive: what it hands to apply_rewrite is ordered, disjoint and in bounds (apply_rewrite's precondition is discharged at the call in process_diffs -> rewrite_action); with accept-all (-U) the kept edits are exactly the greedy selection that drops every edit starting before the end of the last kept one; committed_cnt (the 'Applied N changes' number) grows by exactly the number of kept edits",
                    "rewrite_action: no accepted edit => nothing is written; otherwise the bytes passed to fs::write are apply_rewrite's result"],
        "not_decided": ["the file system itself, repeated invocations, injected languages, ScanResultInner::into_result ordering (iterator adapters + sort_unstable_by_key)"],
        "assumptions": ["String::from_utf8 on replacement bytes succeeds (UTF-8 sources and templates)", "the edits of a file lie inside its text (Diff::generate == make_edit, proved in bounds in unit replacer)", "the interactive prompt may answer anything (external)"],
    },
    "C19": {
        "units": [("source", r"get_char_column|position_for_offset"), "traversal", ("positions", r"Position|start_pos|end_pos|range")],
        "kani": [K("core", "get_char_column_len4", "get_char_column vs characters-since-last-line-break, every valid UTF-8 text and boundary offset (bounded companion of the Verus proof)", bound="valid UTF-8 texts of at most 4 bytes")],
        "decided": ["line/column positions: position_for_offset == (line breaks before, bytes since the last one); get_char_column == characters since the last line break",
                    "Pre (pre-order / dfs, the iterator behind find_all and Visitor): new() starts with exactly preorder(subtree), every next() yields the head of the remaining pre-order and leaves its tail, None only when nothing is left -- every node of the subtree once, in order, never outside (relative to the T-cursor axioms)",
                    "Post (post-order): new() starts with exactly postorder(subtree); every next() yields the head of the remaining post-order and leaves its tail (trace_down / step_up under contract)",
                    "Level (level-order): new() queues the start node; every next() is one breadth-first step (head yielded, its children appended behind the queue)",
                    "Position::column / Node::start_pos / end_pos / range: line == line breaks before the byte offset, column == characters since the last one"],
        "not_decided": ["children/parent/sibling/ancestor consistency of tree-sitter itself (FFI; assumed as T-cursor axioms)", "Post::calibrate_for_match (match_depth protocol)", "Node::ancestors / next_all / prev_all / children: `impl Iterator` built from std::iter::from_fn closures with captured mutable state -- outside this Verus; no contract within reach"],
        "assumptions": ["T-cursor: TreeCursor::goto_first_child / goto_next_sibling / goto_parent behave as on a finite tree whose children know their parent and index, and never leave the subtree the cursor was created on; node ids are unique"],
    },
    "C20": {
        "kani": [K("core", "extract_meta_var_len4", "extract_meta_var over {$,A,_,1,a}^<=4 against the spelling table of the property", bound="strings over {$,A,_,1,a}, length <= 4"),
                 K("core", "extract_meta_var_ellipsis5", "the ellipsis spellings $$$, $$$x, $$$xy against the spelling table", bound="strings $$$ + at most 2 characters over {$,A,_,1,a}"),
                 K("core", "extract_meta_var_len6", "same, length <= 6", bound="strings over {$,A,_,1,a}, length <= 6", tier="thorough"),
                 K("core", "split_first_meta_var_len5", "fix-template variable scanner vs the spelling table", bound="strings over {$,A,a,_,1,space}, length <= 5"),
                 K("config", "parse_an_b_len4", "parse_an_b vs reference An+B grammar", bound="strings over {9,1,n,+,-,space}, length <= 4"),
                 K("config", "numeric_position_exact", "numeric nthChild position", complete=True)],
        "units": ["nth_child", ("transformation", r"resolve_char|Substring"), "preprocess"],
        "decided": ["pre_process_pattern (unbounded, Verus): every character other than `$` is copied unchanged, in order; a run of `$` becomes expando characters iff a name start [A-Z_] follows or it is exactly `$$$`; other runs (lone sigils, lower-case or digit-first names) stay `$`", "substring == Python slice on characters (unbounded, Verus)", "extract_meta_var spelling table", "is_matched <=> exists n >= 0. i = A*n + B (unbounded, Verus)", "template variable scanner"],
        "not_decided": ["the hole appears in the parsed pattern tree of each of the 23 languages (needs the C parsers)"],
        "assumptions": [],
    },
}

NOT_APPLICABLE = {
    "C09": "equality of the outputs of five front-end programs and an LSP notification history (async tower-lsp + DashMap): outside both verifiers (DESIGN 4.C09)",
    "C17": "thread schedules of the walker/printer: Kani has no threads, Verus would need the code rewritten into its permission types (DESIGN 4.C17)",
}
# properties not yet wired are listed as not applicable until their check exists
for _i in range(1, 21):
    _k = "C%02d" % _i
    if _k not in PROPS and _k not in NOT_APPLICABLE:
        NOT_APPLICABLE[_k] = "check not built yet (work in progress)"
