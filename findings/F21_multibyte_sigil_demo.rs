// F21 (C07 / C11): create_template("µ µA", 'µ', &[]) panicked: "start byte index 1 is not a char boundary; it is inside 'µ'".
// Append to crates/core/src/replacer/template.rs and run `cargo test -p ast-grep-core f21` (fails before the fix commit).
#[cfg(test)]
mod f21 {
  use super::*;
  #[test]
  fn f21_multibyte_sigil() {
    // a custom language may set metaVarChar to a non-ASCII char
    let t = create_template("µ µA", 'µ', &[]);
    match t { TemplateFix::WithMetaVar(t) => assert_eq!(t.fragments.len(), 2), _ => panic!("expected a variable") }
  }
}
