const a = styled`a { color: red }`
const b = css`b { color: red }`
