const x = 1
