// ===== T-cow: std::borrow::Cow plumbing used by the matchers (trusted) =====
pub uninterp spec fn as_ref_spec<'a, 'b, T: PointeeSized, U: PointeeSized>(t: &'b &'a mut T) -> &'b U;

pub assume_specification<'a, 'b, T, U>[ <&'a mut T as AsRef<U>>::as_ref ](_0: &'b &'a mut T) -> (r: &'b U)
    where T: AsRef<U> + PointeeSized, U: PointeeSized
    ensures r == as_ref_spec::<T, U>(_0);

pub broadcast axiom fn axiom_cow_env_as_ref<'a, 'b, 'c, 't, D: Doc>(c: &'b &'a mut Cow<'c, MetaVarEnv<'t, D>>)
    ensures #[trigger] as_ref_spec::<Cow<'c, MetaVarEnv<'t, D>>, MetaVarEnv<'t, D>>(c)@ == cow_env(*old(*c));

pub uninterp spec fn into_owned_spec<'a, B: std::marker::MetaSized + ToOwned + ?Sized>(c: Cow<'a, B>) -> <B as ToOwned>::Owned;
pub assume_specification<'a, B>[ Cow::<'_, B>::into_owned ](_0: Cow<'a, B>) -> (r: <B as ToOwned>::Owned)
    where B: std::marker::MetaSized + ToOwned + ?Sized
    ensures r == into_owned_spec::<B>(_0);
pub broadcast axiom fn axiom_into_owned<'a, 't, D: Doc>(c: Cow<'a, MetaVarEnv<'t, D>>)
    ensures #[trigger] into_owned_spec::<MetaVarEnv<'t, D>>(c)@ == cow_env(c);

#[verifier::allow(undeclared_external_trait)]
pub assume_specification<T>[ Option::<T>::xor ](_0: Option<T>, _1: Option<T>) -> (r: Option<T>)
    where T: std::marker::Destruct
    ensures r == (match (_0, _1) { (Some(a), None) => Some(a), (None, Some(b)) => Some(b), _ => None });

pub assume_specification<'a, 'b, B>[ Cow::<'_, B>::to_mut ](_0: &'b mut Cow<'a, B>) -> (r: &'b mut <B as ToOwned>::Owned)
    where B: std::marker::MetaSized + ToOwned + ?Sized
    ensures *r == into_owned_spec::<B>(*old(_0)),
            *final(_0) == Cow::<'a, B>::Owned(*final(r));
