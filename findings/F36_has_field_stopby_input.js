function f() { return g(1); }
