foo({
  a: 1,
  b: 2
})
