// Kani harnesses for crates/core/src/replacer/template.rs::create_template (child module, scratch copy only)
use super::*;

const ALPHA: [u8; 5] = [b'$', b'A', b' ', b'\n', b'a'];

fn ref_indent(src: &[u8]) -> usize {
  let mut p = src.len();
  let mut found = false;
  while p > 0 {
    if src[p - 1] == b'\n' {
      found = true;
      break;
    }
    p -= 1;
  }
  let start = if found { p } else { 0 };
  let mut n = 0;
  while start + n < src.len() && src[start + n] == b' ' {
    n += 1;
  }
  n
}

/// C07: the template scanner partitions the template exactly: fragment0 ++ spelling(var0) ++ fragment1 ++ ...
/// == template; every `$A`-style spelling becomes a variable slot, everything else stays literal; the indent
/// recorded for a slot is the indentation of the template text in front of it
fn check<const N: usize>() {
  let mut buf = [0u8; N];
  let len: usize = kani::any();
  kani::assume(len <= N);
  for i in 0..N {
    let k: usize = kani::any();
    kani::assume(k < ALPHA.len());
    buf[i] = ALPHA[k];
  }
  let tmpl = unsafe { std::str::from_utf8_unchecked(&buf[..len]) };
  let fix = create_template(tmpl, '$', &[]);
  match fix {
    TemplateFix::Textual(t) => {
      // no variable: the text is the template, and it contains no `$A` / `$$A` / `$$$A`
      assert!(t.as_bytes() == &buf[..len]);
      let mut i = 0;
      while i + 1 < len {
        assert!(!(buf[i] == b'$' && buf[i + 1] == b'A'));
        i += 1;
      }
    }
    TemplateFix::WithMetaVar(t) => {
      assert!(t.fragments.len() == t.vars.len() + 1);
      // walk the template: fragment, then sigils + name of the variable, ...
      let mut pos = 0;
      let mut k = 0;
      while k < t.vars.len() {
        let f = t.fragments[k].as_bytes();
        assert!(pos + f.len() <= len && &buf[pos..pos + f.len()] == f);
        pos += f.len();
        // the slot starts here: its indent is the indentation of everything before it
        assert!(t.vars[k].1 == ref_indent(&buf[..pos]));
        let (name, multi) = match &t.vars[k].0 {
          MetaVarExtract::Single(n) => (n.as_bytes(), false),
          MetaVarExtract::Multiple(n) => (n.as_bytes(), true),
          MetaVarExtract::Transformed(_) => {
            assert!(false); // no transform keys were given
            (&b""[..], false)
          }
        };
        let mut sig = 0;
        while pos < len && buf[pos] == b'$' && sig < 3 {
          pos += 1;
          sig += 1;
        }
        assert!(sig >= 1 && (multi == (sig == 3)));
        assert!(pos + name.len() <= len && &buf[pos..pos + name.len()] == name && name.len() >= 1);
        pos += name.len();
        k += 1;
      }
      let last = t.fragments[k].as_bytes();
      assert!(pos + last.len() == len && &buf[pos..] == last);
    }
  }
}

#[kani::proof]
#[kani::unwind(6)]
fn create_template_len3() {
  check::<3>();
}
