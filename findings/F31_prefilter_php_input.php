<?php
ECHO 1;
