pub open spec fn cow_env<'a, 't, D: Doc>(c: Cow<'a, MetaVarEnv<'t, D>>) -> GEnv {
    match c {
        Cow::Borrowed(b) => b@,
        Cow::Owned(o) => o@,
    }
}
