// append to crates/language/src/lib.rs and run: cargo test -p ast-grep-language f19_error -- --nocapture
#[cfg(test)]
mod verif_demo_f19 {
  use super::*;
  use ast_grep_core::matcher::{Matcher, MatcherExt, Pattern};
  #[test]
  fn f19_error_leaf_pattern_kinds() {
    let lang = SupportLang::JavaScript;
    let pattern = Pattern::str("?", lang);
    let root = lang.ast_grep("a ? b : c");
    let brute: Vec<_> = root.root().dfs().filter(|n| pattern.match_node(n.clone()).is_some()).map(|n| n.kind().to_string()).collect();
    let fast: Vec<_> = root.root().find_all(&pattern).map(|n| n.kind().to_string()).collect();
    println!("brute={brute:?} fast={fast:?} kinds={:?}", pattern.potential_kinds());
    assert_eq!(brute, fast);
  }
}
