#!/usr/bin/env python3
"""kani_replay.py -- replays a Kani counterexample against the REAL code.

The replay file (written by ./check on a Kani failure) carries the concrete-playback unit test that Kani
generated for the failing harness: the values of every kani::any() in the harness.  Replaying = compiling
that test into the harness module of a scratch copy of /repo's current working tree and running it with
`cargo kani playback`: the real function is executed on the concrete input and the failing assertion /
panic is shown.
"""
import json
import os
import re
import subprocess
import sys

HERE = os.path.dirname(os.path.abspath(__file__))
sys.path.insert(0, HERE)
import kani_run  # noqa: E402


def replay(d):
    crate, harness = d["harness"].split("::", 1)
    test = d["counterexample"]
    mo = re.search(r"fn (kani_concrete_playback_\w+)", test)
    if not mo:
        print("no playback test in the replay file")
        return 2
    testname = mo.group(1)
    inject = json.load(open(os.path.join(HERE, "inject.json")))
    # which harness file defines the harness?
    target = None
    for rel, h in inject.items():
        if h.startswith(crate + "/") and re.search(r"\bfn\s+%s\b" % re.escape(harness), open(os.path.join(HERE, h)).read()):
            target = (rel, h)
    if not target:
        print("harness %s not found" % d["harness"])
        return 2
    src = kani_run.sync()
    pb_dir = os.path.join(kani_run.WORK, "kh_playback")
    os.makedirs(pb_dir, exist_ok=True)
    pb_file = os.path.join(pb_dir, os.path.basename(target[1]))
    open(pb_file, "w").write(open(os.path.join(HERE, target[1])).read() + "\n" + test + "\n")
    # point the injected module of that one file at the playback copy
    dst = os.path.join(src, target[0])
    txt = open(dst).read()
    txt = re.sub(r'#\[cfg\(kani\)\] #\[path = "[^"]*"\] mod verif_kani;', '#[cfg(kani)] #[path = "%s"] mod verif_kani;' % pb_file, txt)
    open(dst, "w").write(txt)
    env = dict(os.environ, CARGO_NET_OFFLINE="true", CARGO_TARGET_DIR=os.path.join(kani_run.WORK, "target_playback"))
    cmd = ["cargo", "kani", "playback", "-Z", "concrete-playback", "-p", kani_run.PKG[crate], "--", testname]
    print("$ " + " ".join(cmd))
    p = subprocess.run(cmd, cwd=src, env=env, capture_output=True, text=True, timeout=1800)
    out = p.stdout + p.stderr
    tail = "\n".join(l for l in out.splitlines() if re.search(r"panicked|assertion|test result|FAILED|failed|running \d+ test", l))
    print(tail[-3000:])
    # restore the normal injection on the next sync (the file is rewritten because its content differs)
    failed = "FAILED" in out or "panicked" in out
    print("REPLAY: the counterexample %s on the real code" % ("REPRODUCES the failure" if failed else "does NOT reproduce"))
    return 1 if failed else 0


if __name__ == "__main__":
    sys.exit(replay(json.load(open(sys.argv[1]))))
