// ===== trusted environment T-node / T-env / T-cow (shared prelude; every item here is an ASSUMPTION) =====
// Ghost views.  A GNode is the mathematical identity of a syntax node; a GEnv the content of a
// MetaVarEnv.  Contracts are stated over these views so that they do not depend on the encoding D.
pub ghost struct GNode {
    pub id: int,            // tree-sitter node id (identity inside one tree)
    pub kind: usize,        // kind_id()
    pub named: bool,        // is_named()
    pub start: nat,         // range().start
    pub end: nat,           // range().end
    pub comment: bool,      // kind name contains "comment"
}
/// the source text of a node
pub uninterp spec fn g_text(n: GNode) -> Seq<char>;

pub ghost struct GEnv {
    pub single: Map<Seq<char>, GNode>,
    pub multi: Map<Seq<char>, Seq<GNode>>,
    pub transformed: Map<Seq<char>, Seq<u8>>,
}

pub trait Language: Sized {}
pub trait Content: Sized { type Underlying: Clone + PartialEq; }
pub trait Doc: Sized {
    type Source: Content;
    type Lang: Language;
}

#[verifier::external_body]
#[verifier::reject_recursive_types(D)]
pub struct Node<'r, D: Doc> { _p: PhantomData<&'r D> }

impl<'r, D: Doc> View for Node<'r, D> {
    type V = GNode;
    uninterp spec fn view(&self) -> GNode;
}
impl<'r, D: Doc> Clone for Node<'r, D> {
    #[verifier::external_body]
    fn clone(&self) -> (r: Self) ensures r@ == self@ { unimplemented!() }
}
impl<'r, D: Doc> Node<'r, D> {
    #[verifier::external_body]
    pub fn kind_id(&self) -> (k: u16) ensures k as usize == self@.kind { unimplemented!() }
    #[verifier::external_body]
    pub fn is_named(&self) -> (b: bool) ensures b == self@.named { unimplemented!() }
    #[verifier::external_body]
    pub fn node_id(&self) -> (k: usize) ensures k as int == self@.id { unimplemented!() }
    #[verifier::external_body]
    pub fn range(&self) -> (r: std::ops::Range<usize>) ensures r.start == self@.start, r.end == self@.end, r.start <= r.end { unimplemented!() }
}

