// Kani harnesses for crates/config/src/transform/transformation.rs (child module, scratch copy only)
use super::*;

/// C11: `used_vars` is called on every transformation at load: it must not panic whatever the source
/// string is (empty, no sigil, multi-byte first character)
#[kani::proof]
#[kani::unwind(5)]
fn used_vars_no_panic_len3() {
  let bytes: [u8; 3] = kani::any();
  let len: usize = kani::any();
  kani::assume(len <= 3);
  if let Ok(s) = std::str::from_utf8(&bytes[..len]) {
    let t = Transformation::Substring(Substring { source: s.to_string(), start_char: None, end_char: None });
    let v = t.used_vars();
    // the sigils are stripped: `$$$A` and `$A` name A
    if s.starts_with("$$$") {
      assert!(v.len() + 3 == s.len());
    } else if s.starts_with('$') {
      assert!(v.len() + 1 == s.len());
    }
  }
}
