#!/usr/bin/env python3
"""prints the markdown table of seeded changes and what the checks do with them"""
import json, os
rows = []
for d in sorted(os.listdir("/verif/seeded")):
    mp = os.path.join("/verif/seeded", d, "meta.json")
    if not os.path.exists(mp):
        continue
    m = json.load(open(mp))
    out = (m.get("check_output") or [""])
    first = out[0] if out else ""
    if m.get("check_exit_code") == 1:
        ob = first.split("obligation=")[-1].split(" no-failing")[0] if "obligation=" in first else first[:80]
        res = "**detected**: " + ob
    elif m.get("check_exit_code") == 2:
        res = "undecided (exit 2): " + first.split(": ", 1)[-1][:110]
    elif os.path.exists(os.path.join("/verif/seeded", d, "NEUTRALIZED.md")):
        res = "no longer a violation on the repaired tree (exit 0 is right): " + open(os.path.join("/verif/seeded", d, "NEUTRALIZED.md")).read().strip().splitlines()[0][:140]
    else:
        res = "missed"
    rows.append("| %s | %s | %s | %s |" % (d, m["breaks_property"], m["needs_to_manifest"][:110], res))
det = sum("**detected**" in r for r in rows); und = sum("undecided (exit 2)" in r for r in rows); mis = sum(r.rstrip().endswith("| missed |") for r in rows)
print("Totals over %d seeded changes: %d detected, %d undecided, %d missed, %d no longer a violation on the repaired tree.\n" % (len(rows), det, und, mis, len(rows) - det - und - mis))
print("| seed | property | needs | outcome of `./check <property> quick` |")
print("|------|----------|-------|------------------------------------------|")
print("\n".join(rows))
