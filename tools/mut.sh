#!/bin/bash
# tools/mut.sh <relpath> <python-replace: OLD==>>NEW> <check ids...>  -- try a mutation on a scratch copy of /repo
set -e
rel="$1"; rep="$2"; shift 2
M=/tmp/mrepo_$$
mkdir -p $M
rsync -a --exclude=/target --exclude=/.git --exclude=/npm /repo/ $M/
python3 - "$M/$rel" "$rep" <<'PY'
import sys
p, rep = sys.argv[1], sys.argv[2]
old, new = rep.split("==>>", 1)
old = old.encode().decode("unicode_escape"); new = new.encode().decode("unicode_escape")
s = open(p).read()
assert s.count(old) >= 1, "mutation target not found"
open(p, "w").write(s.replace(old, new, 1))
PY
rc=0
for id in "$@"; do
  VERIF_REPO=$M VERIF_KANI_WORK=/verif/.work/kani_mut ./check $id quick | cut -c1-400 || rc=$?
done
rm -rf $M
exit 0
