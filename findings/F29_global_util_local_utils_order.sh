#!/usr/bin/env bash
# Unmodified HEAD: a GLOBAL utility whose LOCAL utility refers to another global utility is not
# ordered after it (DependentRule for (L, SerializableRuleCore) only walks `rule`, not `utils`).
# Depending on the hash seed the project either loads and reports, or fails with
# "Rule must specify a set of AST kinds to match".  Run from the worktree root.
BIN="$(pwd)/target/debug/ast-grep"; T="$(mktemp -d)"; trap 'rm -rf "$T"' EXIT
mkdir -p "$T/rules" "$T/utils"; cd "$T"
printf 'ruleDirs: [rules]\nutilDirs: [utils]\n' > sgconfig.yml
cat > utils/a.yml <<'Y'
id: short-ident
language: JavaScript
utils:
  local-x:
    matches: is-ident
    regex: '^.$'
rule:
  matches: local-x
Y
cat > utils/b.yml <<'Y'
id: is-ident
language: JavaScript
rule:
  kind: identifier
Y
cat > rules/r.yml <<'Y'
id: r
language: JavaScript
message: short identifier
rule:
  matches: short-ident
Y
echo 'let a = bcd' > a.js
for i in $(seq 1 20); do
  timeout 20 "$BIN" scan --json=compact a.js > out 2> err; c=$?
  echo "exit=$c $(jq -c '[.[]|.text]' out 2>/dev/null) $(grep -A1 'Caused by' err | tail -n 1)"
done | sort | uniq -c
