foo(1, 2)
