// ===== T-std: Option combinators taking closures (trusted specs of std) =====
#[verifier::allow(undeclared_external_trait)]
pub assume_specification<T, F>[ Option::<T>::or_else ](_0: Option<T>, _1: F) -> (r: Option<T>)
    where F: FnOnce() -> Option<T> + std::marker::Destruct, T: std::marker::Destruct
    requires _0 is None ==> _1.requires(())
    ensures _0 matches Some(x) ==> r == Some(x), _0 is None ==> _1.ensures((), r);
#[verifier::allow(undeclared_external_trait)]
pub assume_specification<T>[ Option::<T>::or ](_0: Option<T>, _1: Option<T>) -> (r: Option<T>)
    where T: std::marker::Destruct
    ensures r == (match _0 { Some(x) => Some(x), None => _1 });
