// ===== T-env (assumed here; `insert`/`insert_multi` are proved against the same statements in unit meta_var) =====
/// structural identity of two nodes (does_node_match_exactly); reflexive by the node-id short cut
pub uninterp spec fn same_shape(a: GNode, b: GNode) -> bool;
pub open spec fn seq_view<'t, D: Doc>(v: Seq<Node<'t, D>>) -> Seq<GNode> { v.map_values(|n: Node<'t, D>| n@) }
pub open spec fn named_only(s: Seq<GNode>) -> Seq<GNode> { s.filter(|n: GNode| n.named) }
/// two sibling runs agree on their named nodes, pairwise structurally identical
pub open spec fn same_shape_multi(a: Seq<GNode>, b: Seq<GNode>) -> bool {
    let (na, nb) = (named_only(a), named_only(b));
    na.len() == nb.len() && forall|i: int| 0 <= i < na.len() ==> same_shape(#[trigger] na[i], nb[i])
}

pub open spec fn insert_ok(e: GEnv, id: Seq<char>, n: GNode) -> bool {
    e.single.dom().contains(id) ==> same_shape(e.single[id], n)
}
pub open spec fn insert_multi_ok(e: GEnv, id: Seq<char>, ns: Seq<GNode>) -> bool {
    e.multi.dom().contains(id) ==> same_shape_multi(e.multi[id], ns)
}
