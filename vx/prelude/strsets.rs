// ===== T-std: HashSet<&str> behaves as a set of string CONTENTS (trusted axioms) =====
pub broadcast axiom fn axiom_str_ref_key_model<'a>()
    ensures #[trigger] vstd::std_specs::hash::obeys_key_model::<&'a str>();
/// the &str with a given content (a &str is determined by its content)
pub uninterp spec fn str_of<'a>(s: Seq<char>) -> &'a str;
pub broadcast axiom fn axiom_str_of<'a>(s: Seq<char>) ensures #[trigger] str_of::<'a>(s)@ == s;
pub broadcast axiom fn axiom_str_ext<'a>(a: &'a str) ensures #[trigger] str_of::<'a>(a@) == a;
/// HashSet<&str>::contains(&str) (Q = str): looks the content up
pub broadcast axiom fn axiom_set_contains_str<'a>(m: Set<&'a str>, k: &str)
    ensures #[trigger] vstd::std_specs::hash::set_contains_borrowed_key::<&'a str, str>(m, k) <==> m.contains(str_of::<'a>(k@));
/// HashSet<&str>::contains(&&str) (Q = &str = the key type itself)
pub broadcast axiom fn axiom_set_contains_str_ref<'a, 'b>(m: Set<&'a str>, k: &&'b str)
    ensures #[trigger] vstd::std_specs::hash::set_contains_borrowed_key::<&'a str, &'b str>(m, k) <==> m.contains(str_of::<'a>((*k)@));
pub broadcast group group_str_sets { axiom_str_ref_key_model, axiom_str_of, axiom_str_ext, axiom_set_contains_str, axiom_set_contains_str_ref }

/// a set of &str viewed as a set of contents
pub open spec fn sset<'a>(s: Set<&'a str>) -> Set<Seq<char>> { s.map(|k: &'a str| k@) }
pub proof fn lemma_sset_contains<'a>(s: Set<&'a str>, k: Seq<char>)
    ensures sset(s).contains(k) <==> s.contains(str_of::<'a>(k))
{
    broadcast use group_str_sets;
    if s.contains(str_of::<'a>(k)) { assert(str_of::<'a>(k)@ == k); }
    if sset(s).contains(k) { let x = choose|x: &'a str| s.contains(x) && x@ == k; assert(str_of::<'a>(x@) == x); }
}
pub proof fn lemma_sset_insert<'a>(s: Set<&'a str>, k: &'a str)
    ensures sset(s.insert(k)) == sset(s).insert(k@)
{
    let f = |k: &'a str| k@;
    s.lemma_set_map_insert_commute(k, f);
}

/// R3 for-owned-set shim: the elements of a HashSet<&str>, each once (order unspecified)
#[verifier::external_body]
pub fn vx_set_elems<'a>(s: std::collections::HashSet<&'a str>) -> (v: Vec<&'a str>)
    ensures forall|x: &'a str| s@.contains(x) <==> v@.contains(x)
{ s.into_iter().collect() }
