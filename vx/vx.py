#!/usr/bin/env python3
"""vx.py -- engine V: mechanical extraction of real /repo items into a single Verus file.

A *unit* is a template file vx/units/<unit>.vrs: ordinary Verus source (the trusted prelude, spec
functions, lemmas) with /*@extract ... @*/ blocks.  Each block names an item of /repo's CURRENT
working tree by path; the item text is copied verbatim and ghost text is woven into it.  Every woven
span is bracketed /*+vx*/ ... /*-vx*/; every rewrite of executable text (rules R3/R4/R5) is bracketed
/*+vxR:<n>*/ ... /*-vxR*/ and logged with the original text.  After generation the erasure check
strips the spans, restores the logged originals and compares token-for-token with the item in /repo.

Block grammar (one directive per line; payloads between <<< and >>>):

  /*@extract <relpath> :: <locator> [:: <locator> ...]      locator: fn N | struct N | enum N | trait N
                                                            | type N | const N | impl <header text>
  as canary                      item is a vacuity canary: it MUST fail to verify
  rename <old> <new>             (canaries only) rename the item so that it can coexist with the original
  only <fn>[,<fn>...]            keep only these fns of an impl/trait block (others dropped, logged)
  ret <fn> <name>                R2: `-> T` becomes `-> (name: T)`
  sig <fn> <<< ... >>>           requires/ensures/decreases after the signature
  pre <<< ... >>>                ghost text (attribute) in front of the whole item
  attr <fn> <<< ... >>>          attribute before the fn (e.g. #[verifier::external_body]; logged)
  start <fn> <<< ... >>>         ghost text at the start of the body
  prologue <fn> <<< stmt >>>     R9-interior: an executable statement at the start of the body (moves a by-value self
                                 into a mutable local); logged and erased like every rewrite
  loop <fn> <k> <<< ... >>>      invariant/decreases for the k-th loop of fn (source order, 1-based)
  beforeloop|loopstart|loopend|afterloop <fn> <k> <<< ... >>>   ghost text right before loop k / at the start / at the end of its body / right after it
  forit <fn> <k> <name>          names the ghost iterator of the k-th loop, which must be a `for`
  before <fn> "<anchor>" <<< ... >>>   ghost text before the unique occurrence of anchor in fn
  after  <fn> "<anchor>" <<< ... >>>   ghost text after it
  beforestmt <fn> "<text inside a statement>" <<< ... >>>   ghost text before the start of the statement containing the anchor
  afterstmt <fn> "<statement start>" <<< ... >>>   ghost text after the `;` ending the statement that starts with the anchor
  R3 <fn> <shape> [<k>]          desugar an iterator adapter / loop shape (see r3_* below); logged
  R4 "<old>" "<new>"             redirect a call to a trusted shim with the same signature; logged
  R5                             debug_assert!(e) -> assert(e)
  R6 "<old>" "<new>"             instantiate an associated type; logged
  drop "<text>"                  R1: drop an attribute / qualifier inside the item; logged
  @*/

Exit codes of the runner: 0 ok, 1 violation, 2 undecided (lost anchor, unsupported construct,
erasure mismatch, rlimit, tool failure).
"""
import hashlib
import json
import os
import re
import subprocess
import sys
import time

REPO = os.environ.get("VERIF_REPO", "/repo")
HERE = os.path.dirname(os.path.abspath(__file__))


class Undecided(Exception):
    """lost anchor / unsupported construct: exit 2, never an alarm"""


# --------------------------------------------------------------------------------------------------
# Rust-aware masking: same length as the input, comments and string/char contents blanked.
# --------------------------------------------------------------------------------------------------

def mask(src):
    out = list(src)
    i, n = 0, len(src)

    def blank(a, b):
        for k in range(a, b):
            if out[k] != "\n":
                out[k] = " "

    while i < n:
        c = src[i]
        if c == "/" and i + 1 < n and src[i + 1] == "/":
            j = src.find("\n", i)
            j = n if j < 0 else j
            blank(i, j)
            i = j
        elif c == "/" and i + 1 < n and src[i + 1] == "*":
            depth, j = 1, i + 2
            while j < n and depth:
                if src.startswith("/*", j):
                    depth += 1
                    j += 2
                elif src.startswith("*/", j):
                    depth -= 1
                    j += 2
                else:
                    j += 1
            blank(i, j)
            i = j
        elif c == '"' or (c in "br" and re.match(r'b?r?#*"', src[i:i + 8]) and (i == 0 or not (src[i - 1].isalnum() or src[i - 1] == "_"))):
            m = re.match(r'(b?)(r?)(#*)"', src[i:i + 8])
            raw, hashes = m.group(2) == "r", m.group(3)
            j = i + m.end()
            if raw:
                end = src.find('"' + hashes, j)
                end = n if end < 0 else end
                blank(i + m.end(), end)
                i = end + 1 + len(hashes)
            else:
                if hashes:  # `b#"` is not a literal; treat '#' normally
                    i += 1
                    continue
                while j < n and src[j] != '"':
                    j += 2 if src[j] == "\\" else 1
                blank(i + m.end(), j)
                i = j + 1
        elif c == "'":
            m = re.match(r"'(\\(x[0-9a-fA-F]{2}|u\{[0-9a-fA-F_]+\}|.)|[^\\'])'", src[i:i + 14], re.S)
            if m:
                blank(i + 1, i + m.end() - 1)
                i += m.end()
            else:
                i += 1  # lifetime
        else:
            i += 1
    return "".join(out)


def match_brace(m, i, open_c="{", close_c="}"):
    """m: masked text, m[i] == open_c; returns index of the matching close."""
    depth = 0
    for j in range(i, len(m)):
        if m[j] == open_c:
            depth += 1
        elif m[j] == close_c:
            depth -= 1
            if depth == 0:
                return j
    raise Undecided("unbalanced %s at %d" % (open_c, i))


ITEM_RE = re.compile(r"\b(fn|struct|enum|trait|impl|mod|type|const|static|union|use|macro_rules!)\b")
QUAL_RE = re.compile(r"((pub(\s*\([^)]*\))?|unsafe|async|const|default|extern(\s*\"[^\"]*\")?)\s+)*$")


def norm(s):
    return re.sub(r"\s+", " ", s).strip()


def tight(s):
    return re.sub(r"\s+", "", s)


def scan_items(src, m, lo, hi):
    """yield (kind, name_or_header, start, end, body_open) for items directly inside src[lo:hi]"""
    i = lo
    while i < hi:
        mo = ITEM_RE.search(m, i, hi)
        if not mo:
            return
        kw = mo.group(1)
        # must be at nesting depth 0 relative to lo
        # (we always jump past the whole item, so depth is 0 here unless stray braces)
        k = mo.start()
        # `const` / `unsafe` / etc. preceding fn: let the qualifier regexp handle it
        if kw in ("const",) and re.match(r"const\s+(unsafe\s+|async\s+|extern\s+)*fn\b", m[k:k + 40]):
            i = mo.end()
            continue
        if kw == "impl" and k > 0 and re.search(r"(->|:|=|\(|,|&|<|dyn)\s*$", m[max(lo, k - 12):k]):
            i = mo.end()  # `impl Trait` in type position
            continue
        q = QUAL_RE.search(m[lo:k])
        start = lo + q.start() if q and q.group(0) else k
        # find end: first `{` or `;` at paren/bracket/angle-agnostic depth 0
        j, par = mo.end(), 0
        body_open = None
        while j < hi:
            ch = m[j]
            if ch in "([":
                par += 1
            elif ch in ")]":
                par -= 1
            elif ch == "{" and par == 0:
                body_open = j
                break
            elif ch == ";" and par == 0:
                break
            j += 1
        if body_open is not None:
            end = match_brace(m, body_open) + 1
            header = src[k:body_open]
        else:
            end = j + 1
            header = src[k:j]
        if kw == "struct" and body_open is None:
            pass
        if kw == "impl":
            name = norm(header)
        else:
            nm = re.match(r"\s*([A-Za-z_][A-Za-z0-9_]*)", m[mo.end():])
            name = nm.group(1) if nm else ""
        yield (kw, name, start, end, body_open)
        i = end


def locate(src, m, locators):
    """resolve a locator path; returns (start, end) of the item in src"""
    return locate_in(src, m, locators, 0, len(src))


def locate_in(src, m, locators, lo, hi):
    found = None
    for li, loc in enumerate(locators):
        loc = loc.strip()
        mo = re.match(r"(fn|struct|enum|trait|impl|type|const|mod|static)\b(.*)$", loc, re.S)
        if not mo:
            raise Undecided("bad locator `%s`" % loc)
        kind, rest = mo.group(1), mo.group(2).strip()
        # `fn name#2`: the 2nd item of that name (cfg-alternatives of one function)
        nth = None
        mn = re.match(r"(.*?)\s*#(\d+)$", rest, re.S)
        if mn and kind != "impl":
            rest, nth = mn.group(1).strip(), int(mn.group(2))
        cands = []
        for (kw, name, s, e, bo) in scan_items(src, m, lo, hi):
            if kw != kind:
                # descend into `mod` transparently? no: only explicit paths
                continue
            if kind == "impl":
                if tight(name) == tight("impl" + rest):
                    cands.append((s, e, bo))
            elif name == rest:
                cands.append((s, e, bo))
        if kind == "impl" and not cands:
            for (kw, name, s, e, bo) in scan_items(src, m, lo, hi):
                if kw == "impl" and tight("impl" + rest) in tight(name):
                    cands.append((s, e, bo))
        if len(cands) > 1 and li + 1 < len(locators):
            # several impl blocks with the same header: the one that contains the rest of the path
            ok = []
            for (s, e, bo) in cands:
                if bo is None:
                    continue
                try:
                    sub = locate_in(src, m, locators[li + 1:], bo + 1, e - 1)
                    ok.append(sub)
                except Undecided:
                    pass
            if len(ok) == 1:
                return ok[0]
        if nth is not None and len(cands) >= nth:
            cands = [cands[nth - 1]]
        if len(cands) != 1:
            raise Undecided("LOST-ANCHOR: locator `%s` matched %d items" % (loc, len(cands)))
        s, e, bo = cands[0]
        found = (s, e)
        if bo is not None:
            lo, hi = bo + 1, e - 1
    return found


# --------------------------------------------------------------------------------------------------
# Weaving
# --------------------------------------------------------------------------------------------------

class Item:
    """An extracted item plus pending edits on its original text."""

    def __init__(self, relpath, locators, text, line0):
        self.relpath, self.locators = relpath, locators
        self.text, self.line0 = text, line0
        self.m = mask(text)
        self.edits = []      # (start, end, replacement, tag, original)
        self.log = []        # rewrite log (rule, where, before, after)
        self.canary = False
        self.trusted = []

    # -- helpers ---------------------------------------------------------------------------------
    def fn_span(self, name):
        """(start, params_close, body_open or None, end) of fn `name` inside the item"""
        hits = [mo for mo in re.finditer(r"\bfn\s+" + re.escape(name) + r"\b", self.m)]
        if len(hits) != 1:
            raise Undecided("LOST-ANCHOR: fn %s found %d times in %s" % (name, len(hits), self.where()))
        k = hits[0].start()
        # generic params may contain parens? skip to first '(' at angle depth 0
        j, ang = hits[0].end(), 0
        while j < len(self.m):
            ch = self.m[j]
            if ch == "<":
                ang += 1
            elif ch == ">" and self.m[j - 1] != "-":
                ang -= 1
            elif ch == "(" and ang == 0:
                break
            j += 1
        pclose = match_brace(self.m, j, "(", ")")
        j, par = pclose + 1, 0
        body_open = None
        while j < len(self.m):
            ch = self.m[j]
            if ch in "([":
                par += 1
            elif ch in ")]":
                par -= 1
            elif ch == "{" and par == 0:
                body_open = j
                break
            elif ch == ";" and par == 0:
                break
            j += 1
        end = match_brace(self.m, body_open) + 1 if body_open is not None else j + 1
        return k, pclose, body_open, end, j

    def lead_start(self, s):
        """start of the doc-comment / attribute lines immediately preceding position s"""
        ls = self.text.rfind("\n", 0, s) + 1
        if self.text[ls:s].strip():
            return s
        while ls > 0:
            pl = self.text.rfind("\n", 0, ls - 1) + 1
            t = self.text[pl:ls].strip()
            if t.startswith("//") or t.startswith("#["):
                ls = pl
            else:
                break
        return ls

    def where(self):
        return "%s :: %s" % (self.relpath, " :: ".join(self.locators))

    def line_of(self, pos):
        return self.line0 + self.text.count("\n", 0, pos)

    def add(self, start, end, repl, tag, orig=""):
        self.edits.append((start, end, repl, tag, orig))

    def ghost(self, pos, text):
        self.add(pos, pos, "/*+vx*/" + text + "/*-vx*/", "ghost")

    def rewrite(self, start, end, new, rule):
        orig = self.text[start:end]
        n = len(self.log)
        self.log.append({"rule": rule, "where": "%s:%d" % (self.relpath, self.line_of(start)),
                         "before": orig, "after": new})
        self.add(start, end, "/*+vxR:%d*/%s/*-vxR*/" % (n, new), "rewrite", orig)

    def loops(self, fn):
        k, pclose, bo, end, _ = self.fn_span(fn)
        if bo is None:
            raise Undecided("fn %s has no body" % fn)
        res = []
        for mo in re.finditer(r"\b(for|while|loop)\b", self.m[bo:end]):
            s = bo + mo.start()
            if mo.group(1) == "for" and re.match(r"for\s*<", self.m[s:s + 8]):
                continue
            # a loop inside a region an earlier R4 / R6 directive replaced wholesale is not a loop of the woven function (and does not
            # take part in the numbering: the loops after it keep their ordinals whether or not that region is present)
            def _r4(e):
                mo_ = re.match(r"/\*\+vxR:(\d+)\*/", e[2])
                return bool(mo_) and self.log[int(mo_.group(1))]["rule"].startswith(("R4", "R6"))
            if any(e[3] == "rewrite" and e[0] <= s < e[1] and _r4(e) for e in self.edits):
                continue
            j, par = bo + mo.end(), 0
            while j < end:
                ch = self.m[j]
                if ch in "([":
                    par += 1
                elif ch in ")]":
                    par -= 1
                elif ch == "{" and par == 0:
                    if re.search(r"\bunsafe\s*$", self.m[s:j]):
                        # `for x in unsafe { .. } {`: the block of the header expression, not the loop body
                        j = match_brace(self.m, j)
                    else:
                        break
                j += 1
            res.append((mo.group(1), s, j, match_brace(self.m, j)))
        return res

    def find_in_fn(self, fn, anchor, occ=None):
        k, pclose, bo, end, _ = self.fn_span(fn)
        seg = self.text[k:end]
        # whitespace-insensitive anchor search
        pat = r"\s*".join(re.escape(t) for t in re.findall(r"\w+|[^\w\s]", anchor))
        hits = list(re.finditer(pat, seg))
        if occ is not None:
            if len(hits) < occ:
                raise Undecided("LOST-ANCHOR: `%s` occurrence %d not found in fn %s of %s" % (anchor, occ, fn, self.where()))
            return k + hits[occ - 1].start(), k + hits[occ - 1].end()
        if len(hits) != 1:
            raise Undecided("LOST-ANCHOR: `%s` found %d times in fn %s of %s" % (anchor, len(hits), fn, self.where()))
        return k + hits[0].start(), k + hits[0].end()

    # -- directives ------------------------------------------------------------------------------
    def d_ret(self, fn, name):
        k, pclose, bo, end, hdr_end = self.fn_span(fn)
        seg = self.m[pclose:hdr_end]
        a = seg.find("->")
        if a < 0:
            raise Undecided("fn %s has no return type" % fn)
        t0 = pclose + a + 2
        w = re.search(r"\bwhere\b", self.m[t0:hdr_end])
        t1 = t0 + w.start() if w else hdr_end
        # trim whitespace
        while self.text[t0].isspace():
            t0 += 1
        while self.text[t1 - 1].isspace():
            t1 -= 1
        self.ghost(t0, "(%s: " % name)
        self.ghost(t1, ")")

    def d_sig(self, fn, payload):
        k, pclose, bo, end, hdr_end = self.fn_span(fn)
        pos = hdr_end
        while self.text[pos - 1].isspace():
            pos -= 1
        self.ghost(pos, "\n" + payload + "\n")

    def d_attr(self, fn, payload):
        k = self.fn_span(fn)[0]
        q = QUAL_RE.search(self.m[:k])
        pos = q.start() if q and q.group(0) else k
        self.add(pos, pos, "/*+vx*/" + payload + "\n/*-vx*/", "ghost-attr")
        if "external_body" in payload or "external" in payload:
            self.trusted.append("%s::%s marked %s" % (self.where(), fn, payload.strip()))

    def d_start(self, fn, payload):
        bo = self.fn_span(fn)[2]
        self.ghost(bo + 1, "\n" + payload + "\n")

    def d_loop(self, fn, k, payload):
        ls = self.loops(fn)
        if k > len(ls):
            raise Undecided("LOST-ANCHOR: loop %d of fn %s in %s (has %d)" % (k, fn, self.where(), len(ls)))
        pos = ls[k - 1][2]
        self.ghost(pos, "\n" + payload + "\n")

    def d_forit(self, fn, k, name):
        ls = self.loops(fn)
        if k > len(ls) or ls[k - 1][0] != "for":
            raise Undecided("LOST-ANCHOR: for-loop %d of fn %s in %s" % (k, fn, self.where()))
        s = ls[k - 1][1]
        mo = re.search(r"\bin\b", self.m[s:ls[k - 1][2]])
        self.ghost(s + mo.end(), " %s: " % name)

    def d_before(self, fn, anchor, payload, occ=None):
        a, b = self.find_in_fn(fn, anchor, occ)
        self.ghost(a, payload + "\n")

    def d_after(self, fn, anchor, payload, occ=None):
        a, b = self.find_in_fn(fn, anchor, occ)
        self.ghost(b, "\n" + payload)

    def d_R4(self, old, new, rule="R4"):
        # `$1`..`$9` in the target stand for a place expression (identifiers joined by `.`); the same placeholder in
        # the replacement is filled with what was matched (the shim is applied to whatever vector the code names)
        # `$S1`..`$S9` stand for a plain string literal (no `{` placeholders): the shim gets whatever text the code writes
        toks = re.findall(r"\$S\d|\$\d|\w+|[^\w\s]", old)
        pat = r"\s*".join((r"(?P<v%s>[A-Za-z_]\w*(?:\(\s*\))?(?:\[[^\]]*\])?(?:\s*\.\s*[A-Za-z_]\w*(?:\(\s*\))?(?:\[[^\]]*\])?)*?)" % t[1]) if re.match(r"\$\d$", t)
                           else (r'(?P<s%s>"(?:[^"\\{]|\\.)*")' % t[2]) if re.match(r"\$S\d$", t) else re.escape(t) for t in toks)
        if re.match(r"\w", old):
            pat = r"\b" + pat
        if re.search(r"\w$", old):
            pat = pat + r"\b"
        hits = [h for h in re.finditer(pat, self.text) if self.m[h.start()] == self.text[h.start()]]
        # occurrences inside regions already dropped (R1) are gone anyway
        hits = [h for h in hits if not any(e[0] <= h.start() and h.end() <= e[1] and e[0] < e[1] for e in self.edits)]
        if not hits:
            raise Undecided("LOST-ANCHOR: %s target `%s` not in %s" % (rule, old, self.where()))
        for h in hits:
            rep = new
            for gk, gv in h.groupdict().items():
                if gk.startswith("s"):
                    rep = rep.replace("$S" + gk[1:], gv)
                else:
                    rep = rep.replace("$" + gk[1:], re.sub(r"\s+", "", gv))
            self.rewrite(h.start(), h.end(), rep, rule)

    def d_R5(self):
        for mo in re.finditer(r"\bdebug_assert!\s*\(", self.m):
            close = match_brace(self.m, mo.end() - 1, "(", ")")
            inner = self.text[mo.end():close]
            # drop the message arguments: cut at the first top-level comma
            im, par = self.m[mo.end():close], 0
            for ci, ch in enumerate(im):
                if ch in "([{":
                    par += 1
                elif ch in ")]}":
                    par -= 1
                elif ch == "," and par == 0:
                    inner = inner[:ci]
                    break
            self.rewrite(mo.start(), close + 1, "assert(%s)" % inner, "R5")

    def d_drop(self, text):
        pat = r"\s*".join(re.escape(t) for t in re.findall(r"\w+|[^\w\s]", text))
        hits = list(re.finditer(pat, self.text))
        hits = [h for h in hits if not any(e[0] <= h.start() and h.end() <= e[1] and e[0] < e[1] for e in self.edits)]
        if not hits:
            raise Undecided("LOST-ANCHOR: drop target `%s` not in %s" % (text, self.where()))
        for h in hits:
            self.rewrite(h.start(), h.end(), "", "R1")

    def d_dropattrs(self):
        """R1: every attribute `#[...]` inside the item is dropped (serde / schemars / derive metadata)"""
        for mo in re.finditer(r"#\s*\[", self.m):
            close = match_brace(self.m, mo.end() - 1, "[", "]")
            if any(e[0] <= mo.start() and close + 1 <= e[1] and e[0] < e[1] for e in self.edits):
                continue
            self.rewrite(mo.start(), close + 1, "", "R1")

    def d_pubfields(self):
        """R1: a struct and its fields are made `pub` (visibility only; Verus specs may then mention them)"""
        mo = re.match(r"\s*(pub(\s*\([^)]*\))?\s+)?struct\b", self.m)
        if mo and not mo.group(1):
            k = self.m.index("struct")
            self.rewrite(k, k, "pub ", "R1")
        bo = self.m.find("{")
        if bo < 0:
            return
        close = match_brace(self.m, bo)
        depth, j, start = 0, bo + 1, bo + 1
        while j < close:
            ch = self.m[j]
            if ch in "([{<":
                depth += 1
            elif ch in ")]}>" and self.m[j - 1] != "-":
                depth -= 1
            elif ch == "," and depth == 0:
                start = j + 1
            elif depth == 0 and ch == ":" and self.m[j + 1] != ":" and self.m[j - 1] != ":":
                fld = re.search(r"([A-Za-z_][A-Za-z0-9_]*)\s*$", self.m[start:j])
                if fld:
                    fs = start + fld.start()
                    pre = self.m[start:fs]
                    if "pub" not in pre:
                        self.rewrite(fs, fs, "pub ", "R1")
                    elif re.search(r"pub\s*\(", pre):
                        pm = re.search(r"pub\s*\([^)]*\)", self.m[start:fs])
                        self.rewrite(start + pm.start(), start + pm.end(), "pub", "R1")
                # skip to the end of this field
                d2, j2 = 0, j + 1
                while j2 < close:
                    c2 = self.m[j2]
                    if c2 in "([{<":
                        d2 += 1
                    elif c2 in ")]}>" and self.m[j2 - 1] != "-":
                        d2 -= 1
                    elif c2 == "," and d2 == 0:
                        break
                    j2 += 1
                j = j2
                start = j2 + 1
            j += 1

    def d_nodefault(self, fn):
        """R7a: the default body of trait method fn is replaced by `;` (the body is materialised into
        every impl of the unit that inherits it, see d_inherit)"""
        k, pclose, bo, end, _ = self.fn_span(fn)
        if bo is None:
            raise Undecided("LOST-ANCHOR: trait method %s has no default body in %s" % (fn, self.where()))
        self.rewrite(bo, end, ";", "R7-nodefault")

    def d_inherit(self, fn, relpath, locators, repo):
        """R7b: if this impl does not define fn, the trait's default method (verbatim from relpath ::
        locators) is copied into the impl -- which is what the compiler does."""
        if re.search(r"\bfn\s+" + re.escape(fn) + r"\b", self.m):
            return  # the impl defines it: nothing is inherited
        src = open(os.path.join(repo, relpath)).read()
        s0, e0 = locate(src, mask(src), locators)
        tr = Item(relpath, locators, src[s0:e0], src.count("\n", 0, s0) + 1)
        k, pclose, bo, end, _ = tr.fn_span(fn)
        if bo is None:
            raise Undecided("LOST-ANCHOR: %s has no default body for %s" % (tr.where(), fn))
        text = tr.text[k:end]
        for (o_, n_) in getattr(self, "inherit_repl", []):
            if o_ not in text:
                raise Undecided("LOST-ANCHOR: inheritR target `%s` not in default method %s" % (o_, fn))
            text = text.replace(o_, n_)
            self.log.append({"rule": "R6", "where": "%s:%d" % (relpath, tr.line_of(k)), "before": o_, "after": n_})
        close = match_brace(self.m, self.m.find("{"))
        n = len(self.log)
        self.log.append({"rule": "R7-inherit", "where": "%s:%d" % (relpath, tr.line_of(k)), "before": "",
                         "after": "default method %s of %s copied into %s" % (fn, tr.where(), self.where())})
        self.add(close, close, "/*+vxR:%d*/  %s\n/*-vxR*/" % (n, text), "rewrite", "")
        # weaving directives for the inherited fn operate on a nested item: record for later
        self.inherited = getattr(self, "inherited", {})
        self.inherited[fn] = (close, text)

    def d_only(self, names):
        """keep only the listed fns of an impl/trait body"""
        bo = self.m.find("{")
        end = match_brace(self.m, bo)
        for (kw, name, s, e, b) in scan_items(self.text, self.m, bo + 1, end):
            if kw == "fn" and name not in names:
                # include preceding attributes / doc comments lines
                self.rewrite(self.lead_start(s), e, "", "R1-dropfn")
            elif kw != "fn" and kw not in ("type", "const"):
                pass
        for nm in names:
            self.fn_span(nm)

    # R3 shapes ------------------------------------------------------------------------------------
    def d_R3(self, fn, shape, k=1):
        fnname = "r3_" + shape.replace("-", "_")
        if not hasattr(self, fnname):
            raise Undecided("unknown R3 shape %s" % shape)
        getattr(self, fnname)(fn, k)

    def _closure_after(self, pos):
        """text[pos] == '(' of `.adapter(|p| body)`: returns (param, body_start, body_end, close)"""
        close = match_brace(self.m, pos, "(", ")")
        mo = re.match(r"\(\s*(?:move\s+)?\|\s*([A-Za-z_&][A-Za-z0-9_ &]*(?::[^|]*)?|\([A-Za-z0-9_ ,&]*\)\s*)\|\s*", self.text[pos:close])
        if not mo:
            raise Undecided("R3: closure shape not recognised at %s:%d" % (self.relpath, self.line_of(pos)))
        return mo.group(1).strip(), pos + mo.end(), close, close

    def _stmt_start(self, pos):
        j = pos
        while j > 0 and self.m[j - 1] not in ";{}":
            j -= 1
        while self.text[j].isspace():
            j += 1
        return j

    def _stmt_start_in_fn(self, fn, pos):
        """start of the statement (of the innermost enclosing `{ }` block that is not inside parentheses) containing pos:
        forward scan of the fn body with a bracket stack; a statement ends at a `;` or at the `}` of a block statement"""
        _, _, bo, end, _ = self.fn_span(fn)
        stack, starts = [], {}
        j = bo
        while j < pos:
            ch = self.m[j]
            if ch in "([{":
                stack.append(ch)
                if ch == "{":
                    starts[len(stack)] = j + 1
            elif ch in ")]}":
                if stack:
                    stack.pop()
                if ch == "}" and stack and stack[-1] == "{":
                    nxt = re.match(r"\s*(else\b|[),.?;=])", self.m[j + 1:])
                    if not nxt:
                        starts[len(stack)] = j + 1
            elif ch == ";" and stack and stack[-1] == "{":
                starts[len(stack)] = j + 1
            j += 1
        d = len(stack)
        while d > 0 and stack[d - 1] != "{":
            d -= 1
        # a `{` that sits inside parentheses (a struct pattern / literal) is not a block: go further out
        while d > 0 and any(c in "([" for c in stack[:d]) and "{" in stack[:d - 1]:
            d2 = d - 1
            while d2 > 0 and stack[d2 - 1] != "{":
                d2 -= 1
            if not any(c in "([" for c in stack[d2:d]):
                break
            d = d2
        k = starts.get(d, bo + 1)
        while k < pos and self.text[k].isspace():
            k += 1
        # skip comment lines (blanked in the mask)
        while k < pos and self.m[k].isspace():
            k += 1
        return k

    def r3_all(self, fn, k):
        """let V = RECV.iter().all(|P| BODY);   ==>  index while-loop with early exit (BODY stays in place)"""
        k0, _, bo, end, _ = self.fn_span(fn)
        hits = list(re.finditer(r"\.\s*iter\s*\(\s*\)\s*\.\s*all\s*\(", self.m[bo:end]))
        if len(hits) < k:
            raise Undecided("LOST-ANCHOR: R3 all #%d in fn %s of %s" % (k, fn, self.where()))
        h = hits[k - 1]
        par = bo + h.end() - 1
        p, bs, be, close = self._closure_after(par)
        s0 = self._stmt_start(bo + h.start())
        semi = self.m.find(";", close)
        head = self.text[s0:bo + h.start()]
        mo = re.match(r"let\s+([A-Za-z_][A-Za-z0-9_]*)\s*=\s*(.*)$", head, re.S)
        if not mo or self.text[close + 1:semi].strip():
            raise Undecided("R3 all: statement shape not recognised at %s:%d" % (self.relpath, self.line_of(s0)))
        var, recv = mo.group(1), mo.group(2).strip()
        self.rewrite(s0, bs, "let mut %s = true;\n    let mut vx_i: usize = 0;\n    while vx_i < %s.len()\n    /*@loop*/\n    {\n"
                     "      let %s = &%s[vx_i];/*@body*/\n      if !(" % (var, recv, p, recv), "R3-all")
        self.rewrite(be, semi + 1, ") { %s = false; break; }\n      vx_i = vx_i + 1;\n    }" % var, "R3-all")

    def r3_any_expr(self, fn, k):
        """the k-th expression `RECV.iter().any(|P| BODY)` of fn (RECV a slice / Vec expression; BODY without `return` / `?`), in any
        expression position  ==>  the definition of Iterator::any over a slice (true at the first element whose BODY holds):
        { let vx_s = RECV; let mut vx_r = false; let mut vx_i = 0; while vx_i < vx_s.len() { let P = &vx_s[vx_i]; let vx_b = BODY;
          if vx_b { vx_r = true; break; } vx_i += 1; } vx_r }        (RECV and BODY stay in place; names get the suffix k for k > 1)"""
        k0, _, bo, end, _ = self.fn_span(fn)
        hits = list(re.finditer(r"\.\s*iter\s*\(\s*\)\s*\.\s*any\s*\(", self.m[bo:end]))
        if len(hits) < k:
            raise Undecided("LOST-ANCHOR: R3 any-expr #%d in fn %s of %s" % (k, fn, self.where()))
        h = hits[k - 1]
        par = bo + h.end() - 1
        p, bs, be, close = self._closure_after(par)
        if re.search(r"\breturn\b|\?", self.m[bs:be]):
            raise Undecided("R3 any-expr: the closure body leaves early (return / ?)")
        s0 = self._chain_start(bo + h.start())
        sfx = "" if k == 1 else str(k)
        self.rewrite(s0, s0, "{ let vx_s%s = " % sfx, "R3-any-expr")
        self.rewrite(bo + h.start(), bs, ";\n        let mut vx_r%s = false;\n        let mut vx_i%s: usize = 0;/*@pre*/\n        while vx_i%s < vx_s%s.len()\n        /*@loop*/\n        {\n          let %s = &vx_s%s[vx_i%s];/*@body*/\n          let vx_b%s = "
                     % (sfx, sfx, sfx, sfx, p, sfx, sfx, sfx), "R3-any-expr")
        self.rewrite(be, close + 1, ";\n          if vx_b%s { vx_r%s = true; break; }/*@tail*/\n          vx_i%s = vx_i%s + 1;\n        }\n        vx_r%s }"
                     % (sfx, sfx, sfx, sfx, sfx), "R3-any-expr")

    def r3_quantifier_path_expr(self, fn, k):
        """tail expression `RECV.iter().all(PATH)` / `RECV.iter().any(PATH)` with PATH a function path (no closure)  ==>  the adapter's
        definition, `all` or `any` as READ from the code:
        { let mut vx_r = true|false; let mut vx_i = 0; while vx_i < RECV.len() { let vx_x = &RECV[vx_i]; let vx_b = PATH(vx_x);
          if !vx_b | vx_b { vx_r = false|true; break; } vx_i += 1; } vx_r }"""
        k0, _, bo, end, _ = self.fn_span(fn)
        hits = list(re.finditer(r"\.\s*iter\s*\(\s*\)\s*\.\s*(all|any)\s*\(\s*([A-Za-z_][A-Za-z0-9_:]*)\s*\)", self.m[bo:end]))
        if len(hits) < k:
            raise Undecided("LOST-ANCHOR: R3 quantifier-path-expr #%d in fn %s of %s" % (k, fn, self.where()))
        h = hits[k - 1]
        which, path = h.group(1), h.group(2)
        s0 = self._chain_start(bo + h.start())
        recv = self.text[s0:bo + h.start()].strip()
        if self.m[bo + h.end():end - 1].strip():
            raise Undecided("R3 quantifier-path-expr: not the tail expression of fn %s" % fn)
        init, test, hit = ("true", "!vx_b", "false") if which == "all" else ("false", "vx_b", "true")
        self.rewrite(s0, bo + h.end(), "{ let mut vx_r = %s;\n  let mut vx_i: usize = 0;/*@pre*/\n  while vx_i < %s.len()\n  /*@loop*/\n  {\n    let vx_x = &%s[vx_i];/*@body*/\n"
                     "    let vx_b = %s(vx_x);\n    if %s { vx_r = %s; break; }/*@tail*/\n    vx_i = vx_i + 1;\n  }\n  vx_r }" % (init, recv, recv, path, test, hit), "R3-quantifier-path")

    def r3_sort_by_key_stmt(self, fn, k):
        """statement `V.sort_by_key(|P| KEY);` / `V.sort_unstable_by_key(|P| KEY);`  ==>  `let ghost vx_key = |P: ELEM| KEY; let ghost vx_le = |a, b| vx_key(a).vx_ord_le(vx_key(b)); vx_sort_by(&mut V, Ghost(vx_le));`
        (ELEM = the 4th argument of the directive): the KEY expression -- what the order depends on -- stays real text, now read as a
        specification of the trusted std sort (a permutation, ascending in that key; VxOrd = std Ord of the key type)"""
        k0, _, bo, end, _ = self.fn_span(fn)
        hits = list(re.finditer(r"\.\s*sort(?:_unstable)?_by_key\s*\(", self.m[bo:end]))
        if len(hits) < k or not getattr(self, "r3_extra", None):
            raise Undecided("LOST-ANCHOR: R3 sort-by-key-stmt #%d in fn %s of %s" % (k, fn, self.where()))
        h = hits[k - 1]
        par = bo + h.end() - 1
        p_, bs, be, close = self._closure_after(par)
        s0 = self._stmt_start(bo + h.start())
        while s0 < bo + h.start() and self.m[s0].isspace():
            s0 += 1
        var = self.text[s0:bo + h.start()].strip()
        semi = self.m.find(";", close)
        if not re.match(r"[A-Za-z_][A-Za-z0-9_.]*$", var) or self.text[close + 1:semi].strip() or not re.match(r"[A-Za-z_]\w*$", p_):
            raise Undecided("R3 sort-by-key-stmt: statement shape not recognised at %s:%d" % (self.relpath, self.line_of(s0)))
        self.rewrite(s0, bs, "/*@pre*//*@loop*/let ghost vx_key = |%s: %s| " % (p_, self.r3_extra[0]), "R3-sort-by-key")
        self.rewrite(be, semi + 1, ";\n    let ghost vx_le = |vx_a: %s, vx_b: %s| vx_key(vx_a).vx_ord_le(vx_key(vx_b));\n    vx_sort_by(&mut %s, Ghost(vx_le));/*@tail*/" % (self.r3_extra[0], self.r3_extra[0], var), "R3-sort-by-key")

    def r3_let_lazy_map(self, fn, k):
        """statement `let V = RECV.iter().map(|P| BODY);` -- a LAZY iterator consumed later, whole and once, BODY without side effects
        (pure calls; no `return` / `?`)  ==>  the list it yields, computed in place:
        let mut V = Vec::new(); let mut vx_i = 0; while vx_i < RECV.len() { let P = &RECV[vx_i]; let vx_e = BODY; V.push(vx_e); vx_i += 1; }
        (evaluating a pure map early is not observable; what consumes V later gets a Vec instead of an iterator: R4 shims there)"""
        k0, _, bo, end, _ = self.fn_span(fn)
        hits = [h for h in re.finditer(r"\.\s*iter\s*\(\s*\)\s*\.\s*map\s*\(", self.m[bo:end])]
        hits = [h for h in hits if re.match(r"let\s+[A-Za-z_]\w*\s*=", self.text[self._stmt_start(bo + h.start()):bo + h.start()].strip() or "x")]
        if len(hits) < k:
            raise Undecided("LOST-ANCHOR: R3 let-lazy-map #%d in fn %s of %s" % (k, fn, self.where()))
        h = hits[k - 1]
        par = bo + h.end() - 1
        p_, bs, be, close = self._closure_after(par)
        if re.search(r"\breturn\b|\?", self.m[bs:be]):
            raise Undecided("R3 let-lazy-map: the closure body leaves early (return / ?)")
        s0 = self._stmt_start(bo + h.start())
        while s0 < bo + h.start() and self.m[s0].isspace():
            s0 += 1
        semi = self.m.find(";", close)
        mo = re.match(r"let\s+([A-Za-z_]\w*)\s*=\s*(.*)$", self.text[s0:bo + h.start()], re.S)
        if not mo or self.text[close + 1:semi].strip():
            raise Undecided("R3 let-lazy-map: statement shape not recognised at %s:%d" % (self.relpath, self.line_of(s0)))
        var, recv = mo.group(1), re.sub(r"\s+", "", mo.group(2))
        iv = "vx_i" if k == 1 else "vx_i%d" % k
        self.rewrite(s0, bs, "let mut %s = Vec::new();\n  let mut %s: usize = 0;/*@pre*/\n  while %s < %s.len()\n  /*@loop*/\n  {\n    let %s = &%s[%s];/*@body*/\n    let vx_e = " % (var, iv, iv, recv, p_, recv, iv), "R3-let-lazy-map")
        self.rewrite(be, semi + 1, ";\n    %s.push(vx_e);/*@tail*/\n    %s = %s + 1;\n  }" % (var, iv, iv), "R3-let-lazy-map")

    def r3_for_each_stmt(self, fn, k):
        """statement `RECV.iter().for_each(|P| BODY);` (BODY may assign captured variables: it is no longer a closure afterwards; no `return` / `?`)
        ==>  let mut vx_i = 0; while vx_i < RECV.len() { let P = &RECV[vx_i]; BODY; vx_i += 1; }     (the definition of for_each; BODY stays in place)"""
        k0, _, bo, end, _ = self.fn_span(fn)
        hits = list(re.finditer(r"\.\s*iter\s*\(\s*\)\s*\.\s*for_each\s*\(", self.m[bo:end]))
        if len(hits) < k:
            raise Undecided("LOST-ANCHOR: R3 for-each-stmt #%d in fn %s of %s" % (k, fn, self.where()))
        h = hits[k - 1]
        par = bo + h.end() - 1
        p_, bs, be, close = self._closure_after(par)
        if re.search(r"\breturn\b|\?", self.m[bs:be]):
            raise Undecided("R3 for-each-stmt: the closure body leaves early (return / ?)")
        s0 = self._stmt_start(bo + h.start())
        while s0 < bo + h.start() and self.m[s0].isspace():
            s0 += 1
        recv = re.sub(r"\s+", "", self.text[s0:bo + h.start()])
        semi = self.m.find(";", close)
        if not re.match(r"[A-Za-z_][A-Za-z0-9_.]*$", recv) or self.text[close + 1:semi].strip() or not re.match(r"[A-Za-z_]\w*$", p_):
            raise Undecided("R3 for-each-stmt: statement shape not recognised at %s:%d" % (self.relpath, self.line_of(s0)))
        iv = "vx_i" if k == 1 else "vx_i%d" % k
        self.rewrite(s0, bs, "let mut %s: usize = 0;/*@pre*/\n    while %s < %s.len()\n    /*@loop*/\n    {\n      let %s = &%s[%s];/*@body*/\n      " % (iv, iv, recv, p_, recv, iv), "R3-for-each")
        self.rewrite(be, semi + 1, ";/*@tail*/\n      %s = %s + 1;\n    }" % (iv, iv), "R3-for-each")

    def r3_find_map(self, fn, k):
        """let V = RECV.iter().find_map(|P| { S* ; E });  ==> index while-loop, first Some wins"""
        k0, _, bo, end, _ = self.fn_span(fn)
        hits = list(re.finditer(r"\.\s*iter\s*\(\s*\)\s*\.\s*find_map\s*\(", self.m[bo:end]))
        if len(hits) < k:
            raise Undecided("LOST-ANCHOR: R3 find_map #%d in fn %s of %s" % (k, fn, self.where()))
        h = hits[k - 1]
        par = bo + h.end() - 1
        p, bs, be, close = self._closure_after(par)
        s0 = self._stmt_start(bo + h.start())
        semi = self.m.find(";", close)
        head = self.text[s0:bo + h.start()]
        mo = re.match(r"let\s+([A-Za-z_][A-Za-z0-9_]*)\s*=\s*(.*)$", head, re.S)
        if not mo or self.text[close + 1:semi].strip():
            raise Undecided("R3 find_map: statement shape not recognised at %s:%d" % (self.relpath, self.line_of(s0)))
        var, recv = mo.group(1), mo.group(2).strip()
        hdr = ("let mut %s = None;\n    let mut vx_i: usize = 0;\n    while vx_i < %s.len()\n    /*@loop*/\n    {\n"
               "      let %s = &%s[vx_i];/*@body*/\n      " % (var, recv, p, recv))
        tail = ";\n      if vx_r.is_some() { %s = vx_r; break; }\n      vx_i = vx_i + 1;\n    }" % var
        if self.text[bs] == "{":
            cb_close = match_brace(self.m, bs)
            if self.text[cb_close + 1:be].strip():
                raise Undecided("R3 find_map: closure body shape not recognised")
            cut = self.m.rfind(";", bs, cb_close)
            # statements S* stay in place; E is the tail expression
            e0 = cut + 1 if cut >= 0 else bs + 1
            self.rewrite(s0, bs + 1, hdr, "R3-find_map")
            self.rewrite(e0, e0, "\n      let vx_r = ", "R3-find_map")
            self.rewrite(cb_close, semi + 1, tail, "R3-find_map")
        else:
            self.rewrite(s0, bs, hdr + "let vx_r = ", "R3-find_map")
            self.rewrite(be, semi + 1, tail, "R3-find_map")

    def r3_zip_all(self, fn, k):
        """tail expression `A.zip(B).all(|(g, c)| BODY)` over two lists  ==>  lock-step index loop with early exit:
        { let vx_za = A; let vx_zb = B; let mut vx_all = true; let mut vx_i = 0; while vx_i < vx_za.len() && vx_i < vx_zb.len()
        { let g = &vx_za[vx_i]; let c = &vx_zb[vx_i]; let vx_b = BODY; if !vx_b { vx_all = false; break; } vx_i += 1; } vx_all }
        (Zip stops at the shorter list; all() stops at the first false; A, B and BODY stay in place)"""
        k0, _, bo, end, _ = self.fn_span(fn)
        hits = list(re.finditer(r"\.\s*zip\s*\(", self.m[bo:end]))
        if len(hits) < k:
            raise Undecided("LOST-ANCHOR: R3 zip-all #%d in fn %s of %s" % (k, fn, self.where()))
        h = hits[k - 1]
        zopen = bo + h.end() - 1
        zclose = match_brace(self.m, zopen, "(", ")")
        ma = re.match(r"\s*\.\s*all\s*\(", self.m[zclose + 1:])
        if not ma:
            raise Undecided("R3 zip-all: `.all(` expected after zip(..) at %s:%d" % (self.relpath, self.line_of(zclose)))
        par = zclose + 1 + ma.end() - 1
        close = match_brace(self.m, par, "(", ")")
        mo = re.match(r"\(\s*\|\s*\(\s*([A-Za-z_][A-Za-z0-9_]*)\s*,\s*([A-Za-z_][A-Za-z0-9_]*)\s*\)\s*\|\s*", self.text[par:close])
        if not mo:
            raise Undecided("R3 zip-all: closure shape not recognised at %s:%d" % (self.relpath, self.line_of(par)))
        g_, c_ = mo.group(1), mo.group(2)
        bs = par + mo.end()
        a0 = self._stmt_start(bo + h.start())
        self.rewrite(a0, a0, "{ let vx_za = ", "R3-zip-all")
        self.rewrite(bo + h.start(), zopen + 1, ";\n  let vx_zb = ", "R3-zip-all")
        self.rewrite(zclose, bs, ";\n  let mut vx_all = true;\n  let mut vx_i: usize = 0;/*@pre*/\n  while vx_i < vx_za.len() && vx_i < vx_zb.len()\n  /*@loop*/\n  {\n    let %s = &vx_za[vx_i]; let %s = &vx_zb[vx_i];/*@body*/\n    let vx_b = " % (g_, c_), "R3-zip-all")
        self.rewrite(close, close + 1, ";\n    if !vx_b { vx_all = false; break; }\n    vx_i = vx_i + 1;\n  }\n  vx_all }", "R3-zip-all")

    def r3_map_collect(self, fn, k):
        """let V: T = RECV.map(|P| BODY).collect();  ==>  explicit loop over the iterator RECV pushing BODY (in place):
        let mut V: T = Vec::new(); let mut vx_mc = RECV; loop { let Some(P) = vx_mc.next() else { break; }; let vx_e = BODY; V.push(vx_e); }
        (what Iterator::map + collect::<Vec<_>>() do; RECV itself stays in place so that R4 shims can apply to it)"""
        k0, _, bo, end, _ = self.fn_span(fn)
        hits = list(re.finditer(r"\.\s*map\s*\(", self.m[bo:end]))
        if len(hits) < k:
            raise Undecided("LOST-ANCHOR: R3 map-collect #%d in fn %s of %s" % (k, fn, self.where()))
        h = hits[k - 1]
        par = bo + h.end() - 1
        p, bs, be, close = self._closure_after(par)
        s0 = self._stmt_start(bo + h.start())
        semi = self.m.find(";", close)
        if not re.match(r"\s*\.\s*collect\s*\(\s*\)\s*$", self.text[close + 1:semi]):
            raise Undecided("R3 map-collect: `.collect()` expected after the closure at %s:%d" % (self.relpath, self.line_of(close)))
        head = self.text[s0:bo + h.start()]
        mo = re.match(r"let\s+([A-Za-z_][A-Za-z0-9_]*)\s*(:\s*[^=]+?)?\s*=\s*", head, re.S)
        if not mo:
            raise Undecided("R3 map-collect: statement shape not recognised at %s:%d" % (self.relpath, self.line_of(s0)))
        var, ty = mo.group(1), (mo.group(2) or "")
        r0 = s0 + mo.end()
        self.rewrite(s0, r0, "let mut %s%s = Vec::new();\n  let mut vx_mc = " % (var, ty), "R3-map-collect")
        self.rewrite(bo + h.start(), bs, ";/*@pre*/\n  loop\n  /*@loop*/\n  {\n    let Some(%s) = vx_mc.next() else { break; };/*@body*/\n    let vx_e = " % p, "R3-map-collect")
        self.rewrite(be, semi + 1, ";\n    %s.push(vx_e);\n  }" % var, "R3-map-collect")

    def r3_map_collect_expr(self, fn, k):
        """tail expression `RECV.map(|P| BODY).collect()` (RECV an iterator value; BODY without `return` / `?`)  ==>
        { let mut vx_mc = RECV; let mut vx_out = Vec::new(); loop { let Some(P) = vx_mc.next() else { break; };
          let vx_e = BODY; vx_out.push(vx_e); } vx_out }        (the definition of map + collect::<Vec<_>>(); RECV and BODY stay in place)"""
        k0, _, bo, end, _ = self.fn_span(fn)
        hits = list(re.finditer(r"\.\s*map\s*\(", self.m[bo:end]))
        if len(hits) < k:
            raise Undecided("LOST-ANCHOR: R3 map-collect-expr #%d in fn %s of %s" % (k, fn, self.where()))
        h = hits[k - 1]
        par = bo + h.end() - 1
        p, bs, be, close = self._closure_after(par)
        if re.search(r"\breturn\b|\?", self.m[bs:be]):
            raise Undecided("R3 map-collect-expr: the closure body leaves early (return / ?) at %s:%d" % (self.relpath, self.line_of(bs)))
        mc = re.match(r"\s*\.\s*collect\s*\(\s*\)", self.m[close + 1:])
        if not mc or self.m[close + 1 + mc.end():end - 1].strip():
            raise Undecided("R3 map-collect-expr: `.collect()` as the end of the tail expression expected at %s:%d" % (self.relpath, self.line_of(close)))
        cend = close + 1 + mc.end()
        s0 = self._stmt_start(bo + h.start())
        while s0 < bo + h.start() and self.m[s0].isspace():
            s0 += 1
        self.rewrite(s0, s0, "{ let mut vx_mc = ", "R3-map-collect-expr")
        self.rewrite(bo + h.start(), bs, ";\n  let mut vx_out = Vec::new();/*@pre*/\n  loop\n  /*@loop*/\n  {\n    let Some(%s) = vx_mc.next() else { break; };/*@body*/\n    let vx_e = " % p, "R3-map-collect-expr")
        self.rewrite(be, cend, ";\n    vx_out.push(vx_e);/*@tail*/\n  }\n  vx_out }", "R3-map-collect-expr")

    def r3_filter_map_collect_expr(self, fn, k):
        """tail expression `RECV.filter_map(|P| BODY).collect()` (RECV an iterator value; BODY without `return` / `?`)  ==>
        { let mut vx_fm = RECV; let mut vx_out = Vec::new(); loop { let Some(P) = vx_fm.next() else { break; };
          let vx_e = BODY; if let Some(vx_x) = vx_e { vx_out.push(vx_x); } } vx_out }
        (the definition of filter_map + collect::<Vec<_>>(); RECV and BODY stay in place)"""
        k0, _, bo, end, _ = self.fn_span(fn)
        hits = list(re.finditer(r"\.\s*filter_map\s*\(", self.m[bo:end]))
        if len(hits) < k:
            raise Undecided("LOST-ANCHOR: R3 filter-map-collect-expr #%d in fn %s of %s" % (k, fn, self.where()))
        h = hits[k - 1]
        par = bo + h.end() - 1
        p, bs, be, close = self._closure_after(par)
        if re.search(r"\breturn\b|\?", self.m[bs:be]):
            raise Undecided("R3 filter-map-collect-expr: the closure body leaves early (return / ?) at %s:%d" % (self.relpath, self.line_of(bs)))
        mc = re.match(r"\s*\.\s*collect\s*\(\s*\)", self.m[close + 1:])
        s0 = self._stmt_start(bo + h.start())
        if not mc:
            # the lazy form `let V = RECV.filter_map(|P| BODY);` with V used exactly once afterwards, as `V.collect()`, is evaluated where
            # it is bound (the definition of filter_map + collect; the closure then runs a few pure statements earlier)
            ml = re.match(r"let\s+([A-Za-z_]\w*)\s*=\s*", self.text[s0:bo + h.start()])
            semi = close + 1
            while self.m[semi].isspace():
                semi += 1
            # (a struct-literal field NAME `V: ..` is not a use)
            uses = list(re.finditer(r"(?<![A-Za-z0-9_.])%s(?![A-Za-z0-9_])(?!\s*:(?!:))" % re.escape(ml.group(1)), self.m[semi:end])) if ml else []
            if not ml or self.m[semi] != ";" or len(uses) != 1 or not re.match(r"\s*\.\s*collect\s*\(\s*\)", self.m[semi + uses[0].end():]):
                raise Undecided("R3 filter-map-collect-expr: `.collect()` expected after the closure at %s:%d" % (self.relpath, self.line_of(close)))
            u = uses[0]
            mcol = re.match(r"\s*\.\s*collect\s*\(\s*\)", self.m[semi + u.end():])
            e0 = s0 + ml.end()
            self.rewrite(e0, e0, "{ let mut vx_fm = ", "R3-filter-map-collect")
            self.rewrite(bo + h.start(), bs, ";\n  let mut vx_out = Vec::new();/*@pre*/\n  loop\n  /*@loop*/\n  {\n    let Some(%s) = vx_fm.next() else { break; };/*@body*/\n    let vx_e = " % p, "R3-filter-map-collect")
            self.rewrite(be, close + 1, ";\n    if let Some(vx_x) = vx_e { vx_out.push(vx_x); }/*@tail*/\n  }\n  vx_out }", "R3-filter-map-collect")
            self.rewrite(semi + u.end(), semi + u.end() + mcol.end(), "", "R3-filter-map-collect (lazy: collected where bound)")
            return
        cend = close + 1 + mc.end()
        self.rewrite(s0, s0, "{ let mut vx_fm = ", "R3-filter-map-collect")
        self.rewrite(bo + h.start(), bs, ";\n  let mut vx_out = Vec::new();/*@pre*/\n  loop\n  /*@loop*/\n  {\n    let Some(%s) = vx_fm.next() else { break; };/*@body*/\n    let vx_e = " % p, "R3-filter-map-collect")
        self.rewrite(be, cend, ";\n    if let Some(vx_x) = vx_e { vx_out.push(vx_x); }\n  }\n  vx_out }", "R3-filter-map-collect")

    def r3_extend_filter_map(self, fn, k):
        """statement `V.extend(RECV.iter().filter_map(|P| BODY));` (BODY without `return` / `?`)  ==>  index loop pushing the Some results:
        let mut vx_i = 0; while vx_i < RECV.len() { let P = &RECV[vx_i]; let vx_e = BODY; if let Some(vx_x) = vx_e { V.push(vx_x); } vx_i += 1; }
        (the definition of Extend for Vec over filter_map; BODY stays in place)"""
        k0, _, bo, end, _ = self.fn_span(fn)
        hits = list(re.finditer(r"\.\s*extend\s*\(", self.m[bo:end]))
        if len(hits) < k:
            raise Undecided("LOST-ANCHOR: R3 extend-filter-map #%d in fn %s of %s" % (k, fn, self.where()))
        h = hits[k - 1]
        eopen = bo + h.end() - 1
        eclose = match_brace(self.m, eopen, "(", ")")
        inner = re.match(r"\(\s*(.+?)\s*\.\s*iter\s*\(\s*\)\s*\.\s*filter_map\s*\(", self.text[eopen:eclose], re.S)
        if not inner:
            raise Undecided("R3 extend-filter-map: argument is not `RECV.iter().filter_map(..)` at %s:%d" % (self.relpath, self.line_of(eopen)))
        recv = inner.group(1).strip()
        par = eopen + inner.end() - 1
        p, bs, be, close = self._closure_after(par)
        if re.search(r"\breturn\b|\?", self.m[bs:be]):
            raise Undecided("R3 extend-filter-map: the closure body leaves early (return / ?)")
        if self.text[close + 1:eclose].strip():
            raise Undecided("R3 extend-filter-map: unexpected text after the closure")
        s0 = self._stmt_start(bo + h.start())
        var = self.text[s0:bo + h.start()].strip()
        semi = self.m.find(";", eclose)
        if not re.match(r"[A-Za-z_][A-Za-z0-9_.]*$", var) or self.text[eclose + 1:semi].strip():
            raise Undecided("R3 extend-filter-map: statement shape not recognised at %s:%d" % (self.relpath, self.line_of(s0)))
        iv = "vx_x%d" % k
        self.rewrite(s0, bs, "let mut %s: usize = 0;/*@pre*/\n    while %s < %s.len()\n    /*@loop*/\n    {\n      let %s = &%s[%s];/*@body*/\n      let vx_e = " % (iv, iv, recv, p, recv, iv), "R3-extend-filter-map")
        self.rewrite(be, semi + 1, ";\n      if let Some(vx_p) = vx_e { %s.push(vx_p); }/*@tail*/\n      %s = %s + 1;\n    }" % (var, iv, iv), "R3-extend-filter-map")

    def r3_retain_stmt(self, fn, k):
        """statement `V.retain(|P| BODY);` (BODY without `return` / `?`)  ==>  the definition of Vec::retain:
        { let mut vx_it = vx_into_iter(vx_take_vec(&mut V)); loop { let Some(vx_x) = vx_it.next() else { break; };
          let vx_keep = { let P = &vx_x; BODY }; if vx_keep { V.push(vx_x); } } }
        (vx_take_vec = std::mem::take, trusted shim; BODY -- the predicate -- stays in place)"""
        k0, _, bo, end, _ = self.fn_span(fn)
        hits = list(re.finditer(r"\.\s*retain\s*\(", self.m[bo:end]))
        if len(hits) < k:
            raise Undecided("LOST-ANCHOR: R3 retain-stmt #%d in fn %s of %s" % (k, fn, self.where()))
        h = hits[k - 1]
        par = bo + h.end() - 1
        p_, bs, be, close = self._closure_after(par)
        if re.search(r"\breturn\b|\?", self.m[bs:be]):
            raise Undecided("R3 retain-stmt: the closure body leaves early (return / ?)")
        s0 = self._stmt_start(bo + h.start())
        while s0 < bo + h.start() and self.m[s0].isspace():
            s0 += 1      # comments in front of the statement (blank in the mask) stay where they are
        var = self.text[s0:bo + h.start()].strip()
        semi = self.m.find(";", close)
        if not re.match(r"[A-Za-z_][A-Za-z0-9_.]*$", var) or self.text[close + 1:semi].strip() or not re.match(r"[A-Za-z_]\w*$", p_):
            raise Undecided("R3 retain-stmt: statement shape not recognised at %s:%d" % (self.relpath, self.line_of(s0)))
        self.rewrite(s0, bs, "{ let mut vx_it = vx_into_iter(vx_take_vec(&mut %s));/*@pre*/\n    loop\n    /*@loop*/\n    {\n      let Some(vx_x) = vx_it.next() else { break; };/*@body*/\n      let vx_keep = { let %s = &vx_x; " % (var, p_), "R3-retain")
        self.rewrite(be, semi + 1, " };\n      if vx_keep { %s.push(vx_x); }/*@tail*/\n    } }" % var, "R3-retain")

    def r3_map_fold_expr(self, fn, k):
        """tail expression `RECV.iter().map(|P| BODY).fold(INIT, |ACC, CUR| BODY2)` (no early exits in the bodies)  ==>
        { let mut ACC = INIT; let mut vx_i = 0; while vx_i < RECV.len() { let P = &RECV[vx_i]; let CUR = BODY; ACC = BODY2; vx_i += 1; } ACC }
        (the definition of map + fold; BODY, INIT and BODY2 stay in place)"""
        k0, _, bo, end, _ = self.fn_span(fn)
        hits = list(re.finditer(r"\.\s*iter\s*\(\s*\)\s*\.\s*map\s*\(", self.m[bo:end]))
        if len(hits) < k:
            raise Undecided("LOST-ANCHOR: R3 map-fold-expr #%d in fn %s of %s" % (k, fn, self.where()))
        h = hits[k - 1]
        par = bo + h.end() - 1
        p, bs, be, close = self._closure_after(par)
        mf = re.match(r"\s*\.\s*fold\s*\(", self.m[close + 1:])
        if not mf:
            raise Undecided("R3 map-fold-expr: `.fold(` expected after map(..) at %s:%d" % (self.relpath, self.line_of(close)))
        fopen = close + 1 + mf.end() - 1
        fclose = match_brace(self.m, fopen, "(", ")")
        # INIT , |ACC, CUR| BODY2
        dep, comma = 0, None
        for j in range(fopen + 1, fclose):
            ch = self.m[j]
            if ch in "([{":
                dep += 1
            elif ch in ")]}":
                dep -= 1
            elif ch == "," and dep == 0:
                comma = j
                break
        mc = re.match(r"\s*\|\s*([A-Za-z_]\w*)\s*,\s*([A-Za-z_]\w*)\s*\|\s*", self.text[comma + 1:fclose]) if comma else None
        if not mc:
            raise Undecided("R3 map-fold-expr: fold arguments not recognised at %s:%d" % (self.relpath, self.line_of(fopen)))
        acc, cur = mc.group(1), mc.group(2)
        b2s = comma + 1 + mc.end()
        if re.search(r"\breturn\b|\?", self.m[bs:be] + self.m[b2s:fclose]):
            raise Undecided("R3 map-fold-expr: a closure body leaves early (return / ?)")
        s0 = self._stmt_start(bo + h.start())
        recv = self.text[s0:bo + h.start()].strip()
        if not re.match(r"[A-Za-z_][A-Za-z0-9_.]*$", recv):
            raise Undecided("R3 map-fold-expr: receiver is not a place expression at %s:%d" % (self.relpath, self.line_of(s0)))
        # layout: { let mut ACC = INIT; <loop header> let CUR = BODY; ACC = BODY2; ... } -- INIT sits after BODY in the source, so it is
        # moved (logged with the whole expression as `before`)
        # INIT is moved: edits already registered inside it (R4 shims) are applied to the moved copy
        inner = sorted([e for e in self.edits if fopen + 1 <= e[0] and e[1] <= comma], key=lambda e: e[0])
        init, last = "", fopen + 1
        for e in inner:
            # (the inner rewrite stays in the log; its markers are dropped because the moved copy lies inside this shape's own marker)
            init += self.text[last:e[0]] + re.sub(r"/\*\+vxR:\d+\*/|/\*-vxR\*/", "", e[2])
            last = e[1]
            self.edits.remove(e)
        init = (init + self.text[last:comma]).strip()
        self.rewrite(s0, bs, "{ let mut %s = %s;\n  let mut vx_i: usize = 0;/*@pre*/\n  while vx_i < %s.len()\n  /*@loop*/\n  {\n    let %s = &%s[vx_i];/*@body*/\n    let %s = " % (acc, init, recv, p, recv, cur), "R3-map-fold")
        self.rewrite(be, b2s, ";\n    %s = " % acc, "R3-map-fold")
        self.rewrite(fclose, fclose + 1, ";/*@tail*/\n    vx_i = vx_i + 1;\n  }\n  %s }" % acc, "R3-map-fold")

    def _chain_start(self, pos):
        """start of the postfix chain (idents, `.`, `::`, `?`, call / index groups) that ends right before pos"""
        j = pos
        while True:
            while j > 0 and self.m[j - 1].isspace():
                j -= 1
            if j == 0:
                break
            ch = self.m[j - 1]
            if ch in ")]":
                # jump to the matching opener
                dep, q = 0, j - 1
                while q >= 0:
                    if self.m[q] in ")]":
                        dep += 1
                    elif self.m[q] in "([":
                        dep -= 1
                        if dep == 0:
                            break
                    q -= 1
                j = q
            elif ch.isalnum() or ch == "_":
                while j > 0 and (self.m[j - 1].isalnum() or self.m[j - 1] == "_"):
                    j -= 1
            elif ch in ".?":
                j -= 1
            elif ch == ":" and j > 1 and self.m[j - 2] == ":":
                j -= 2
            else:
                break
        while self.text[j].isspace():
            j += 1
        return j

    def r3_find_map_expr(self, fn, k):
        """expression `ITER.find_map(|P| BODY)` (ITER an iterator value; BODY may use captured `&mut` variables: it is no longer a
        closure afterwards; no `return` / `?` in BODY)  ==>
        { let mut vx_fm = ITER; let mut vx_r = None; loop { let Some(P) = vx_fm.next() else { break; }; let vx_e = BODY;
          if vx_e.is_some() { vx_r = vx_e; break; } } vx_r }          (the definition of Iterator::find_map; ITER and BODY stay in place)"""
        k0, _, bo, end, _ = self.fn_span(fn)
        hits = list(re.finditer(r"\.\s*find_map\s*\(", self.m[bo:end]))
        if len(hits) < k:
            raise Undecided("LOST-ANCHOR: R3 find-map-expr #%d in fn %s of %s" % (k, fn, self.where()))
        h = hits[k - 1]
        par = bo + h.end() - 1
        p, bs, be, close = self._closure_after(par)
        if re.search(r"\breturn\b|\?", self.m[bs:be]):
            raise Undecided("R3 find-map-expr: the closure body leaves early (return / ?) at %s:%d" % (self.relpath, self.line_of(bs)))
        s0 = self._chain_start(bo + h.start())
        sfx = "" if k == 1 else str(k)
        self.rewrite(s0, s0, "{ let mut vx_fm%s = " % sfx, "R3-find-map-expr")
        self.rewrite(bo + h.start(), bs, ";\n  let mut vx_r%s = None;/*@pre*/\n  loop\n  /*@loop*/\n  {\n    let Some(%s) = vx_fm%s.next() else { break; };/*@body*/\n    let vx_e%s = " % (sfx, p, sfx, sfx), "R3-find-map-expr")
        self.rewrite(be, close + 1, ";\n    if vx_e%s.is_some() { vx_r%s = vx_e%s; break; }/*@tail*/\n  }\n  vx_r%s }" % (sfx, sfx, sfx, sfx), "R3-find-map-expr")

    def r3_or_else_expr(self, fn, k):
        """expression `X.or_else(|| BODY)` (X a postfix chain)  ==>  { let vx_oe = X; if vx_oe.is_some() { vx_oe } else { BODY } }
        (the definition of Option::or_else; X and BODY stay in place, BODY is no longer a closure)"""
        k0, _, bo, end, _ = self.fn_span(fn)
        hits = list(re.finditer(r"\.\s*or_else\s*\(\s*\|\s*\|\s*", self.m[bo:end]))
        if len(hits) < k:
            raise Undecided("LOST-ANCHOR: R3 or-else-expr #%d in fn %s of %s" % (k, fn, self.where()))
        h = hits[k - 1]
        par = bo + h.start() + self.m[bo + h.start():bo + h.end()].index("(")
        close = match_brace(self.m, par, "(", ")")
        bs = bo + h.end()
        if re.search(r"\breturn\b|\?", self.m[bs:close]):
            raise Undecided("R3 or-else-expr: the closure body leaves early (return / ?)")
        s0 = self._chain_start(bo + h.start())
        sfx = "" if k == 1 else str(k)
        self.rewrite(s0, s0, "({ let vx_oe%s = " % sfx, "R3-or-else-expr")
        self.rewrite(bo + h.start(), bs, ";\n  if vx_oe%s.is_some() { vx_oe%s } else { " % (sfx, sfx), "R3-or-else-expr")
        self.rewrite(close, close + 1, " } })", "R3-or-else-expr")

    def r3_hof_apply_expr(self, fn, k):
        """expression `RECV.HOF(|P| BODY)` where HOF is a small higher-order method of the unit whose PROVED contract says
        "looks one value up; if found returns Some(func(value)), else None" (ReferentRule::eval_local / eval_global) and the closure
        captures `&mut` state  ==>  match RECV.vx_HOF_arg() { Some(P) => Some(BODY), None => None }
        (the call is replaced by what its proved contract says it does; the lookup half is the trusted shim vx_HOF_arg with the same
        lookup contract; BODY stays in place and is no longer a closure).  The method names come from `hofnames <fn> "HOF1,HOF2"`."""
        names = getattr(self, "hof_names", {}).get(fn)
        if not names:
            raise Undecided("R3 hof-apply-expr: no hofnames for fn %s" % fn)
        k0, _, bo, end, _ = self.fn_span(fn)
        hits = list(re.finditer(r"\.\s*(%s)\s*\(\s*\|" % "|".join(re.escape(n) for n in names), self.m[bo:end]))
        if len(hits) < k:
            raise Undecided("LOST-ANCHOR: R3 hof-apply-expr #%d in fn %s of %s" % (k, fn, self.where()))
        h = hits[k - 1]
        name = h.group(1)
        par = bo + h.start() + self.m[bo + h.start():bo + h.end()].index("(")
        p, bs, be, close = self._closure_after(par)
        if re.search(r"\breturn\b|\?", self.m[bs:be]):
            raise Undecided("R3 hof-apply-expr: the closure body leaves early (return / ?)")
        self.rewrite(bo + h.start(), bs, ".vx_%s_arg() { Some(%s) => Some(" % (name, p), "R3-hof-apply")
        s0 = self._chain_start(bo + h.start())
        self.rewrite(s0, s0, "match ", "R3-hof-apply")
        self.rewrite(be, close + 1, "), None => None }", "R3-hof-apply")

    def inline_hof(self, fn, callee_src, callee_name):
        """R3 inline-hof (a PRE-processing step, before every other directive of the block): the one call `RECV.NAME(a1, .., an)` in
        tail position of fn, whose arguments are closures (literals, or locals bound by `let x = |..| ..;` in fn), is replaced by the
        BODY of the callee -- taken from the repository -- with `self` := &RECV, every call `p(args)` of a closure parameter replaced
        by the closure's body (its parameter bound by `let`), and every other mention of `p` by the closure literal (beta reduction).
        A `?` in the callee then returns from fn, which is the same because the call is fn's tail expression.
        The whole fn is logged with its original text and restored wholesale by `erase`."""
        k0, _, bo, end, _ = self.fn_span(fn)
        fstart = self._stmt_start(k0)
        hits = list(re.finditer(r"\.\s*%s\s*\(" % re.escape(callee_name), self.m[bo:end]))
        if not hits:
            raise Undecided("LOST-ANCHOR: R3 inline-hof: `.%s(` not found in fn %s of %s" % (callee_name, fn, self.where()))
        h = hits[-1]   # one call per pass, the last one first (the directive repeats until none is left)
        par = bo + h.end() - 1
        close = match_brace(self.m, par, "(", ")")
        nxt = close + 1
        while self.text[nxt].isspace():
            nxt += 1
        in_tail = self.text[nxt] == "}"
        c0 = self._chain_start(bo + h.start())
        recv = self.text[c0:bo + h.start()].strip()
        # arguments
        args, dep, last = [], 0, par + 1
        for j in range(par + 1, close):
            ch = self.m[j]
            if ch in "([{":
                dep += 1
            elif ch in ")]}":
                dep -= 1
            elif ch == "," and dep == 0:
                args.append(self.text[last:j].strip()); last = j + 1
        if self.text[last:close].strip():
            args.append(self.text[last:close].strip())
        drops, lits = [], []
        for a in args:
            if re.match(r"[A-Za-z_]\w*$", a):
                mo = None
                for cand in re.finditer(r"\blet\s+%s\s*=\s*(?:move\s+)?\|" % re.escape(a), self.m[bo:end]):
                    if bo + cand.start() < c0:
                        mo = cand   # the nearest binding before the call
                if mo is None:
                    raise Undecided("R3 inline-hof: argument `%s` is not bound to a closure in fn %s" % (a, fn))
                ls = bo + mo.start()
                bar = bo + mo.end() - 1
                # end of the let statement: the `;` at depth 0
                j, dep = bar, 0
                while j < end:
                    ch = self.m[j]
                    if ch in "([{":
                        dep += 1
                    elif ch in ")]}":
                        dep -= 1
                    elif ch == ";" and dep == 0:
                        break
                    j += 1
                lits.append(self.text[bar:j].strip())
                # the binding goes away with its last use
                # uses of this binding: later mentions inside the block the `let` sits in (other than new bindings of the name)
                dep2, q = 0, j + 1
                while q < end:
                    if self.m[q] in "{":
                        dep2 += 1
                    elif self.m[q] == "}":
                        if dep2 == 0:
                            break
                        dep2 -= 1
                    q += 1
                uses = [u for u in re.finditer(r"\b%s\b" % re.escape(a), self.m[j + 1:q])
                        if not (par <= j + 1 + u.start() <= close) and not re.search(r"\blet\s+(mut\s+)?$", self.m[max(0, j + 1 + u.start() - 12):j + 1 + u.start()])]
                if not uses:
                    drops.append((ls, j + 1))
            else:
                lits.append(re.sub(r"^move\s+", "", a))
        # callee
        cs = callee_src
        cm = mask(cs)
        mo = re.search(r"\bfn\s+%s\b" % re.escape(callee_name), cm)
        jj, ang = mo.end(), 0
        while cm[jj] != "(" or ang:
            ang += (cm[jj] == "<") - (cm[jj] == ">" and cm[jj - 1] != "-")
            jj += 1
        pclose = match_brace(cm, jj, "(", ")")
        params = []
        dep, last = 0, jj + 1
        for j in range(jj + 1, pclose + 1):
            ch = cm[j]
            if ch in "([{<":
                dep += 1
            elif ch in ")]}>" and j < pclose and not (ch == ">" and cm[j - 1] == "-"):
                dep -= 1
            if (ch == "," and dep == 0) or j == pclose:
                seg = cs[last:j].strip(); last = j + 1
                if seg and not re.match(r"&?\s*(mut\s+)?self\b", seg):
                    params.append(re.sub(r"^mut\s+", "", seg.split(":")[0].strip()))
        if len(params) != len(lits):
            raise Undecided("R3 inline-hof: %d closure arguments for %d parameters of %s" % (len(lits), len(params), callee_name))
        cbo = cm.index("{", pclose)
        # skip a where clause: the body is the LAST top-level `{` before the matching end
        wm = re.search(r"\bwhere\b", cm[pclose:cbo])
        if wm:
            # find the `{` that opens the body: the first `{` after the where clause at angle depth 0
            j, ang = pclose + wm.end(), 0
            while True:
                ch = cm[j]
                if ch == "<":
                    ang += 1
                elif ch == ">" and cm[j - 1] != "-":
                    ang -= 1
                elif ch == "{" and ang == 0:
                    break
                j += 1
            cbo = j
        cend = match_brace(cm, cbo)
        body, bm = cs[cbo:cend + 1], cm[cbo:cend + 1]
        # substitutions, right to left
        subs = []
        for mo2 in re.finditer(r"\bself\b", bm):
            subs.append((mo2.start(), mo2.end(), "(&%s)" % recv))
        for pn, lit in zip(params, lits):
            lm = re.match(r"\|([^|]*)\|\s*(.*)$", lit, re.S)
            if not lm:
                raise Undecided("R3 inline-hof: `%s` is not a closure literal" % lit[:40])
            cparam, cbody = lm.group(1).strip(), lm.group(2).strip()
            for mo2 in re.finditer(r"\b%s\b" % re.escape(pn), bm):
                j = mo2.end()
                while bm[j].isspace():
                    j += 1
                if bm[j] == "(":
                    cl = match_brace(bm, j, "(", ")")
                    arg = body[j + 1:cl].strip()
                    if cparam and arg.endswith("?") and re.match(r"\s*[,}]", bm[cl + 1:]):
                        # `p(E?)` as the value of an arm of the callee: a None of E is the callee's result None
                        subs.append((mo2.start(), cl + 1, "match %s { Some(vx_p) => { let %s = vx_p; %s }, None => None }" % (arg[:-1], cparam, cbody)))
                    elif cparam:
                        subs.append((mo2.start(), cl + 1, "{ let %s = %s; %s }" % (cparam, arg, cbody)))
                    else:
                        subs.append((mo2.start(), cl + 1, "(%s)" % cbody))
                elif not re.match(r"\s*:", bm[mo2.end():mo2.end() + 3]):
                    subs.append((mo2.start(), mo2.end(), lit))
        # nested substitutions (a call argument that itself contains a parameter call): innermost first is not needed for
        # the shapes met here; overlapping spans are rejected
        subs.sort()
        for a_, b_ in zip(subs, subs[1:]):
            if a_[1] > b_[0]:
                # an argument of a parameter call mentions another parameter call: substitute inside the argument text
                pass
        out, last = [], 0
        done_upto = 0
        for (a_, b_, t_) in subs:
            if a_ < done_upto:
                # nested inside the previous substitution: apply textually inside it
                prev = out.pop()
                inner_src = body[a_:b_]
                out.append(prev.replace(inner_src, t_, 1))
                continue
            out.append(body[last:a_]); out.append(t_); last = b_; done_upto = b_
        out.append(body[last:])
        newbody = "".join(out)
        if not in_tail and re.search(r"\breturn\b|\?", mask(newbody)):
            raise Undecided("R3 inline-hof: the call is not in tail position and the inlined body leaves early at %s:%d" % (self.relpath, self.line_of(par)))
        # assemble the new fn text
        pieces, last = [], fstart
        for (a_, b_) in sorted(drops):
            pieces.append(self.text[last:a_]); last = b_
        pieces.append(self.text[last:c0]); pieces.append(newbody); last = close + 1
        fend = end
        pieces.append(self.text[last:fend])
        newfn = "".join(pieces)
        already = [x for x in getattr(self, "inlined", []) if x[0] == fn]
        if not already:
            n = len(self.log)
            self.log.append({"rule": "R3-inline-hof", "where": "%s:%d" % (self.relpath, self.line_of(c0)),
                             "before": self.text[fstart:fend], "after": "every call of `%s` replaced by its body (closure arguments substituted)" % callee_name})
            self.inlined = getattr(self, "inlined", []) + [(fn, n)]
        if not hasattr(self, "orig_text"):
            self.orig_text = self.text
        self.text = self.text[:fstart] + newfn + self.text[fend:]
        self.m = mask(self.text)

    def r3_flat_map_collect_expr(self, fn, k):
        """tail expression `RECV.into_iter().flat_map(|P| BODY).collect()` (BODY yields a Vec; no early exits)  ==>
        { let mut vx_it = vx_into_iter(RECV); let mut vx_out = Vec::new(); loop { let Some(P) = vx_it.next() else { break; };
          let vx_e = BODY; vx_extend(&mut vx_out, vx_e); } vx_out }     (the definition of flat_map + collect; BODY stays in place)"""
        k0, _, bo, end, _ = self.fn_span(fn)
        hits = list(re.finditer(r"\.\s*into_iter\s*\(\s*\)\s*\.\s*flat_map\s*\(", self.m[bo:end]))
        if len(hits) < k:
            raise Undecided("LOST-ANCHOR: R3 flat-map-collect-expr #%d in fn %s of %s" % (k, fn, self.where()))
        h = hits[k - 1]
        par = bo + h.end() - 1
        p, bs, be, close = self._closure_after(par)
        if re.search(r"\breturn\b|\?", self.m[bs:be]):
            raise Undecided("R3 flat-map-collect-expr: the closure body leaves early (return / ?)")
        mc = re.match(r"\s*\.\s*collect\s*\(\s*\)", self.m[close + 1:])
        if not mc:
            raise Undecided("R3 flat-map-collect-expr: `.collect()` expected after the closure")
        cend = close + 1 + mc.end()
        s0 = self._chain_start(bo + h.start())
        recv = self.text[s0:bo + h.start()].strip()
        self.rewrite(s0, bs, "{ let mut vx_it = vx_into_iter(%s);\n  let mut vx_out = Vec::new();/*@pre*/\n  loop\n  /*@loop*/\n  {\n    let Some(%s) = vx_it.next() else { break; };/*@body*/\n    let vx_e = " % (recv, p), "R3-flat-map-collect")
        self.rewrite(be, cend, ";\n    vx_extend(&mut vx_out, vx_e);/*@tail*/\n  }\n  vx_out }", "R3-flat-map-collect")

    def r3_flat_map_collect_set_expr(self, fn, k):
        """the k-th expression `RECV.iter().flat_map(|P| BODY).collect()` of fn collected into a SET (RECV a slice / Vec expression, BODY
        yields a HashSet; no early exits), in any expression position  ==>  the definition of flat_map + collect::<HashSet<_>>():
        { let vx_s = RECV; let mut vx_out = HashSet::new(); let mut vx_i = 0; while vx_i < vx_s.len() { let P = &vx_s[vx_i];
          let vx_e = BODY; vx_insert_all(&mut vx_out, &vx_e); vx_i += 1; } vx_out }      (RECV and BODY stay in place; vx_insert_all: set union,
        a shim of the unit; names get the suffix k for k > 1)"""
        k0, _, bo, end, _ = self.fn_span(fn)
        hits = list(re.finditer(r"\.\s*iter\s*\(\s*\)\s*\.\s*flat_map\s*\(", self.m[bo:end]))
        if len(hits) < k:
            raise Undecided("LOST-ANCHOR: R3 flat-map-collect-set-expr #%d in fn %s of %s" % (k, fn, self.where()))
        h = hits[k - 1]
        par = bo + h.end() - 1
        p, bs, be, close = self._closure_after(par)
        if re.search(r"\breturn\b|\?", self.m[bs:be]):
            raise Undecided("R3 flat-map-collect-set-expr: the closure body leaves early (return / ?)")
        mc = re.match(r"\s*\.\s*collect\s*\(\s*\)", self.m[close + 1:])
        if not mc:
            raise Undecided("R3 flat-map-collect-set-expr: `.collect()` expected after the closure")
        cend = close + 1 + mc.end()
        s0 = self._chain_start(bo + h.start())
        sfx = "" if k == 1 else str(k)
        self.rewrite(s0, s0, "{ let vx_s%s = " % sfx, "R3-flat-map-collect-set")
        self.rewrite(bo + h.start(), bs, ";\n        let mut vx_out%s = HashSet::new();\n        let mut vx_i%s: usize = 0;/*@pre*/\n        while vx_i%s < vx_s%s.len()\n        /*@loop*/\n        {\n          let %s = &vx_s%s[vx_i%s];/*@body*/\n          let vx_e%s = "
                     % (sfx, sfx, sfx, sfx, p, sfx, sfx, sfx), "R3-flat-map-collect-set")
        self.rewrite(be, cend, ";\n          vx_insert_all(&mut vx_out%s, &vx_e%s);/*@tail*/\n          vx_i%s = vx_i%s + 1;\n        }\n        vx_out%s }"
                     % (sfx, sfx, sfx, sfx, sfx), "R3-flat-map-collect-set")

    def r3_filter_collect_stmt(self, fn, k):
        """statement `let V: T = RECV.into_iter().filter(|P| BODY).collect();` (RECV an owned Vec; BODY a bool without `return` / `?`)  ==>
        the definition of filter + collect::<Vec<_>>(): every element, in order, kept when BODY holds on a reference to it:
        let mut V: T = Vec::new(); let mut vx_it = vx_into_iter(RECV); loop { let Some(vx_x) = vx_it.next() else { break; };
          let P = &vx_x; let vx_b = BODY; if vx_b { V.push(vx_x); } }        (BODY stays in place)"""
        k0, _, bo, end, _ = self.fn_span(fn)
        hits = list(re.finditer(r"\.\s*into_iter\s*\(\s*\)\s*\.\s*filter\s*\(", self.m[bo:end]))
        if len(hits) < k:
            raise Undecided("LOST-ANCHOR: R3 filter-collect-stmt #%d in fn %s of %s" % (k, fn, self.where()))
        h = hits[k - 1]
        par = bo + h.end() - 1
        p, bs, be, close = self._closure_after(par)
        if re.search(r"\breturn\b|\?", self.m[bs:be]):
            raise Undecided("R3 filter-collect-stmt: the closure body leaves early (return / ?)")
        semi = self.m.find(";", close)
        if not re.match(r"\s*\.\s*collect\s*\(\s*\)\s*$", self.m[close + 1:semi]):
            raise Undecided("R3 filter-collect-stmt: `.collect();` expected after the closure at %s:%d" % (self.relpath, self.line_of(close)))
        s0 = self._stmt_start(bo + h.start())
        mo = re.match(r"let\s+([A-Za-z_][A-Za-z0-9_]*)\s*(:\s*[^=]+?)?\s*=\s*(.*)$", self.text[s0:bo + h.start()], re.S)
        if not mo:
            raise Undecided("R3 filter-collect-stmt: statement shape not recognised at %s:%d" % (self.relpath, self.line_of(s0)))
        var, ty, recv = mo.group(1), (mo.group(2) or ""), mo.group(3).strip()
        self.rewrite(s0, bs, "let mut %s%s = Vec::new();\n  let mut vx_it = vx_into_iter(%s);/*@pre*/\n  loop\n  /*@loop*/\n  {\n    let Some(vx_x) = vx_it.next() else { break; };\n    let %s = &vx_x;/*@body*/\n    let vx_b = "
                     % (var, ty, recv, p), "R3-filter-collect")
        self.rewrite(be, semi + 1, ";\n    if vx_b { %s.push(vx_x); }/*@tail*/\n  }" % var, "R3-filter-collect")

    def r3_map_collect_set_expr(self, fn, k):
        """the k-th expression `RECV.iter().map(|P| BODY).collect()` of fn collected into a SET (RECV a Vec / slice place; BODY without early
        exits), in any expression position  ==>  the definition of map + collect::<HashSet<_>>():
        { let mut vx_out = HashSet::new(); let mut vx_i = 0; while vx_i < RECV.len() { let P = &RECV[vx_i]; let vx_e = BODY;
          vx_out.insert(vx_e); vx_i += 1; } vx_out }      (BODY stays in place)"""
        k0, _, bo, end, _ = self.fn_span(fn)
        hits = list(re.finditer(r"\.\s*iter\s*\(\s*\)\s*\.\s*map\s*\(", self.m[bo:end]))
        if len(hits) < k:
            raise Undecided("LOST-ANCHOR: R3 map-collect-set-expr #%d in fn %s of %s" % (k, fn, self.where()))
        h = hits[k - 1]
        par = bo + h.end() - 1
        p, bs, be, close = self._closure_after(par)
        if re.search(r"\breturn\b|\?", self.m[bs:be]):
            raise Undecided("R3 map-collect-set-expr: the closure body leaves early (return / ?)")
        mc = re.match(r"\s*\.\s*collect\s*\(\s*\)", self.m[close + 1:])
        if not mc:
            raise Undecided("R3 map-collect-set-expr: `.collect()` expected after the closure")
        cend = close + 1 + mc.end()
        s0 = self._chain_start(bo + h.start())
        recv = self.text[s0:bo + h.start()].strip()
        if not re.match(r"[A-Za-z_][A-Za-z0-9_.]*$", recv):
            raise Undecided("R3 map-collect-set-expr: receiver is not a place expression at %s:%d" % (self.relpath, self.line_of(s0)))
        self.rewrite(s0, bs, "{ let mut vx_out = HashSet::new();\n    let mut vx_i: usize = 0;/*@pre*/\n    while vx_i < %s.len()\n    /*@loop*/\n    {\n      let %s = &%s[vx_i];/*@body*/\n      let vx_e = "
                     % (recv, p, recv), "R3-map-collect-set")
        self.rewrite(be, cend, ";\n      vx_out.insert(vx_e);/*@tail*/\n      vx_i = vx_i + 1;\n    }\n    vx_out }", "R3-map-collect-set")

    def r3_position_expr(self, fn, k):
        """tail expression `RECV.iter().position(|P| BODY)`  ==>  index loop returning the first index whose BODY holds:
        { let mut vx_pos = None; let mut vx_i = 0; while vx_i < RECV.len() { let P = &RECV[vx_i]; let vx_b = BODY;
          if vx_b { vx_pos = Some(vx_i); break; } vx_i += 1; } vx_pos }        (BODY stays in place)"""
        k0, _, bo, end, _ = self.fn_span(fn)
        hits = list(re.finditer(r"\.\s*iter\s*\(\s*\)\s*\.\s*position\s*\(", self.m[bo:end]))
        if len(hits) < k:
            raise Undecided("LOST-ANCHOR: R3 position-expr #%d in fn %s of %s" % (k, fn, self.where()))
        h = hits[k - 1]
        par = bo + h.end() - 1
        p, bs, be, close = self._closure_after(par)
        if re.search(r"\breturn\b|\?", self.m[bs:be]):
            raise Undecided("R3 position-expr: the closure body leaves early (return / ?)")
        s0 = self._stmt_start(bo + h.start())
        recv = self.text[s0:bo + h.start()].strip()
        if not re.match(r"[A-Za-z_][A-Za-z0-9_.]*$", recv):
            raise Undecided("R3 position-expr: receiver is not a place expression at %s:%d" % (self.relpath, self.line_of(s0)))
        self.rewrite(s0, bs, "{ let mut vx_pos: Option<usize> = None;\n  let mut vx_i: usize = 0;/*@pre*/\n  while vx_i < %s.len()\n  /*@loop*/\n  {\n    let %s = &%s[vx_i];/*@body*/\n    let vx_b = " % (recv, p, recv), "R3-position")
        self.rewrite(be, close + 1, ";\n    if vx_b { vx_pos = Some(vx_i); break; }\n    vx_i = vx_i + 1;\n  }\n  vx_pos }", "R3-position")

    def _apply_lift_r4(self, key, body):
        """the liftR4 / liftR4opt redirections registered for a lifted closure, applied to its body text"""
        r4note = ""
        for old_, new_, opt_ in getattr(self, "lift_r4", {}).get(key, []):
            # same target language as R4: `$1`..`$9` stand for a place expression
            toks = re.findall(r"\$\d|\w+|[^\w\s]", old_)
            pat = r"\s*".join((r"(?P<v%s>[A-Za-z_]\w*(?:\(\s*\))?(?:\[[^\]]*\])?(?:\s*\.\s*[A-Za-z_]\w*(?:\(\s*\))?(?:\[[^\]]*\])?)*?)" % t[1]) if re.match(r"\$\d$", t) else re.escape(t) for t in toks)
            if re.match(r"\w", old_):
                pat = r"(?<![\w.])" + pat
            if re.search(r"\w$", old_):
                pat = pat + r"\b"

            def _rep(h, new_=new_):
                rep = new_
                for gk, gv in h.groupdict().items():
                    rep = rep.replace("$" + gk[1:], re.sub(r"\s+", "", gv))
                return rep
            body, n_ = re.subn(pat, _rep, body)
            if n_ == 0:
                if opt_:
                    continue
                raise Undecided("LOST-ANCHOR: liftR4 target `%s` not in the closure of %s in %s" % (old_, key, self.where()))
            r4note += " +R4[%s => %s]" % (old_, new_)
        return body, r4note

    def r3_lift_filter_map(self, fn, k):
        """let V: T = RECV.into_iter().filter_map(|P| { BODY }).collect();   where the closure assigns captured variables
        (FnMut; this Verus has no closures with mutable captures)  ==>  lambda lifting + the definition of filter_map/collect:
          fn vx_lifted_<fn>(P: PT, c1: &mut T1, ..) -> R { BODY with every identifier ci read as (*ci) }      (emitted before fn)
          let mut V: T = Vec::new(); let mut vx_it = vx_into_iter(RECV);
          loop { let Some(P) = vx_it.next() else { break; }; if let Some(vx_x) = vx_lifted_<fn>(P, &mut c1, ..) { V.push(vx_x); } }
        `return`/`?` inside BODY keep their meaning (they leave the closure / the lifted fn).  Parameters come from `liftparams`."""
        if fn not in getattr(self, "lift", {}):
            raise Undecided("R3 lift-filter-map: no liftparams for fn %s" % fn)
        pdecl, caps, rty, prefix, contract = self.lift[fn]
        k0, _, bo, end, _ = self.fn_span(fn)
        # `RECV.into_iter().filter_map(` or, for an iterator VALUE (IntoIterator is the identity on iterators), `RECV.filter_map(`
        hits = list(re.finditer(r"(?:\.\s*into_iter\s*\(\s*\)\s*)?\.\s*filter_map\s*\(", self.m[bo:end]))
        hits = [h_ for h_ in hits if not re.search(r"\.\s*iter\s*\(\s*\)\s*$", self.m[bo:bo + h_.start()])]
        if len(hits) < k:
            raise Undecided("LOST-ANCHOR: R3 lift-filter-map #%d in fn %s of %s" % (k, fn, self.where()))
        h = hits[k - 1]
        par = bo + h.end() - 1
        p, bs, be, close = self._closure_after(par)
        if self.text[bs] != "{" or match_brace(self.m, bs) is None or self.text[match_brace(self.m, bs) + 1:be].strip():
            raise Undecided("R3 lift-filter-map: closure body is not a block at %s:%d" % (self.relpath, self.line_of(bs)))
        pname = pdecl.split(":")[0].strip()
        if re.sub(r"\s+", "", p) != re.sub(r"\s+", "", pname):
            raise Undecided("R3 lift-filter-map: closure parameter is `%s`, liftparams says `%s`" % (p, pname))
        destructure = ""
        if pname.startswith("("):
            # a tuple pattern: the lifted fn takes the tuple and destructures it first (what a pattern parameter means)
            destructure = "let %s = vx_item; " % pname
            pdecl = "vx_item:" + pdecl.split(":", 1)[1]
            pname = "vx_item"
        s0 = self._stmt_start(bo + h.start())
        semi = self.m.find(";", close)
        if not re.match(r"\s*\.\s*collect\s*\(\s*\)\s*$", self.text[close + 1:semi]):
            # the lazy form `let V = RECV.into_iter().filter_map(..);` is accepted when the NEXT statement consumes V whole
            # (`X.extend(V);` / `X.extend(V)`): nothing can observe that the closure then runs one statement earlier
            mv = re.match(r"let\s+([A-Za-z_]\w*)\s*=", self.text[s0:bo + h.start()])
            nxt = re.match(r"\s*[A-Za-z_][\w.]*\s*\.\s*extend\s*\(\s*([A-Za-z_]\w*)\s*\)\s*;?\s*\}?", self.m[semi + 1:semi + 200])
            if self.text[close + 1:semi].strip() or not mv or not nxt or nxt.group(1) != mv.group(1):
                raise Undecided("R3 lift-filter-map: `.collect()` expected after the closure at %s:%d" % (self.relpath, self.line_of(close)))
        head = self.text[s0:bo + h.start()]
        mo = re.match(r"let\s+([A-Za-z_][A-Za-z0-9_]*)\s*(:\s*[^=]+?)?\s*=\s*(.*)$", head, re.S)
        if not mo:
            raise Undecided("R3 lift-filter-map: statement shape not recognised at %s:%d" % (self.relpath, self.line_of(s0)))
        var, ty, recv = mo.group(1), (mo.group(2) or ""), mo.group(3).strip()
        capl_all = [c.strip() for c in split_top(caps) if c.strip()]
        capl = [c for c in capl_all if not c.startswith("=")]
        vcaps = [c[1:].strip() for c in capl_all if c.startswith("=")]       # read-only captures: passed by value / shared reference
        body = self.text[bs:match_brace(self.m, bs) + 1]
        body, r4note = self._apply_lift_r4(fn, body)
        mbody = mask(body)
        for c in capl:
            cn = c.split(":")[0].strip()
            out, last = [], 0
            for mm in re.finditer(r"(?<![A-Za-z0-9_\.])%s(?![A-Za-z0-9_])" % re.escape(cn), mbody):
                out.append(body[last:mm.start()]); out.append("(*%s)" % cn); last = mm.end()
            out.append(body[last:])
            body = "".join(out)
            mbody = mask(body)
        params = ", ".join([pdecl] + ["%s: &mut %s" % (c.split(":")[0].strip(), c.split(":", 1)[1].strip()) for c in capl] + [v.partition(":=")[0].strip() for v in vcaps])
        if destructure:
            body = "{ " + destructure + body + " }"
        lifted = "fn vx_lifted_%s%s(%s) -> (vx_r: %s)\n/*+vx*/%s/*-vx*/\n%s\n\n  " % (fn, getattr(self, "lift_generics", {}).get(fn, ""), params, rty, contract, body)
        fstart = self._stmt_start(k0)
        self.rewrite(fstart, fstart, lifted, "R3-lift-filter-map" + r4note)
        args_ = ", ".join([pname] + ["&mut %s" % c.split(":")[0].strip() for c in capl] + [(v.partition(":=")[2] or v.split(":")[0]).strip() for v in vcaps])
        loop = ("let mut %s%s = Vec::new();\n    let mut vx_it = vx_into_iter(%s);/*@pre*/\n    loop\n    /*@loop*/\n    {\n"
                "      let Some(%s) = vx_it.next() else { break; };/*@body*/\n      if let Some(vx_x) = %svx_lifted_%s(%s) { %s.push(vx_x); }\n    }"
                % (var, ty, recv, pname, prefix, fn, args_, var))
        self.rewrite(s0, semi + 1, loop, "R3-lift-filter-map")

    def r3_lift_let_closure(self, fn, k):
        """`let NAME = |PARAMS| { BODY };` -- a closure that only READS what it captures, bound to a local and called by name --  ==>
        lambda lifting: fn vx_lifted_<fn>_<NAME>(PARAMS, captured..) -> R { BODY } in front of the function, the `let` removed, every
        call `NAME(args)` becomes `vx_lifted_<fn>_<NAME>(args, captured..)`.  NAME is the 4th argument of the directive; parameters,
        captures (`=name: T := ARG`, all by value / shared reference), result type and contract come from `liftparams <fn>:<NAME>`."""
        name = (getattr(self, "r3_extra", None) or [""])[0]
        key = "%s:%s" % (fn, name)
        if key not in getattr(self, "lift", {}):
            raise Undecided("R3 lift-let-closure: no liftparams for %s" % key)
        pdecl, caps, rty, prefix, contract = self.lift[key]
        k0, _, bo, end, _ = self.fn_span(fn)
        mo = re.search(r"\blet\s+%s\s*=\s*(?:move\s*)?\|([^|]*)\|\s*\{" % re.escape(name), self.m[bo:end])
        if not mo:
            raise Undecided("LOST-ANCHOR: R3 lift-let-closure `let %s = |..| {` in fn %s of %s" % (name, fn, self.where()))
        s0 = bo + mo.start()
        bs = bo + mo.end() - 1
        bc = match_brace(self.m, bs)
        semi = bc + 1
        while self.m[semi].isspace():
            semi += 1
        if self.m[semi] != ";":
            raise Undecided("R3 lift-let-closure: `;` expected after the closure of %s" % name)
        want = re.sub(r"\s+", "", ",".join(x.split(":")[0] for x in split_top(pdecl)))
        have = re.sub(r"\s+", "", ",".join(x.split(":")[0] for x in split_top(self.text[bo + mo.start(1):bo + mo.end(1)])))
        if want != have:
            raise Undecided("R3 lift-let-closure: closure parameters are `%s`, liftparams says `%s`" % (have, want))
        plist, args = [pdecl], []
        for c in split_top(caps):
            c = c.strip()
            if not c.startswith("="):
                raise Undecided("R3 lift-let-closure: only read-only captures (`=name: T`) are supported")
            decl, _, arg = c[1:].partition(":=")
            plist.append(decl.strip()); args.append((arg or decl.split(":")[0]).strip())
        lname = "vx_lifted_%s_%s" % (fn, name)
        lbody, r4note = self._apply_lift_r4(key, self.text[bs:bc + 1])
        lifted = "fn %s%s(%s) -> (vx_r: %s)\n/*+vx*/%s/*-vx*/\n%s\n\n" % (lname, getattr(self, "lift_generics", {}).get(key, ""), ", ".join(plist), rty, contract, lbody)
        fstart = self._stmt_start(k0)
        self.rewrite(fstart, fstart, lifted, "R3-lift-let-closure" + r4note)
        self.rewrite(s0, semi + 1, "", "R3-lift-let-closure")
        busy = [(e[0], e[1]) for e in self.edits]
        for c in re.finditer(r"(?<![A-Za-z0-9_\.])%s\s*\(" % re.escape(name), self.m[bo:end]):
            a = bo + c.start()
            if s0 <= a <= semi or any(lo <= a < hi for (lo, hi) in busy if hi > lo):
                continue      # the definition itself / a region another shape replaces (its own liftR4 renames the call there)
            po = bo + c.end() - 1
            pc = match_brace(self.m, po, "(", ")")
            self.rewrite(a, a + len(name), lname, "R3-lift-let-closure")
            self.rewrite(pc, pc, ", " + ", ".join(args), "R3-lift-let-closure")

    def r3_lift_find_map(self, fn, k):
        """expression `ITER.find_map(|P| { BODY })` whose closure has early exits (`?` / `return`) and assigns captured variables  ==>
        lambda lifting + the definition of Iterator::find_map:
          fn vx_lifted_<fn>_fm<k>([&self,] P, c1: &mut T1, .., v1: V1, ..) -> R { BODY with every &mut-captured ci read as (*ci) }
          { let mut vx_fm = ITER; let mut vx_r = None; loop { let Some(P) = vx_fm.next() else { break; };
            let vx_e = vx_lifted_..(P, &mut c1, .., v1, ..); if vx_e.is_some() { vx_r = vx_e; break; } } vx_r }
        Captured variables come from `liftparams` (`name: T` = captured by `&mut`, `=name: T` = passed by value / reborrowed)."""
        if fn not in getattr(self, "lift", {}):
            raise Undecided("R3 lift-find-map: no liftparams for fn %s" % fn)
        pdecl, caps, rty, prefix, contract = self.lift[fn]
        k0, _, bo, end, _ = self.fn_span(fn)
        hits = list(re.finditer(r"\.\s*find_map\s*\(", self.m[bo:end]))
        if len(hits) < k:
            raise Undecided("LOST-ANCHOR: R3 lift-find-map #%d in fn %s of %s" % (k, fn, self.where()))
        h = hits[k - 1]
        par = bo + h.end() - 1
        p, bs, be, close = self._closure_after(par)
        if self.text[bs] != "{" or self.text[match_brace(self.m, bs) + 1:be].strip():
            raise Undecided("R3 lift-find-map: closure body is not a block at %s:%d" % (self.relpath, self.line_of(bs)))
        pname = pdecl.split(":")[0].strip()
        if re.sub(r"\s+", "", p.split(":")[0]) != re.sub(r"\s+", "", pname):
            raise Undecided("R3 lift-find-map: closure parameter is `%s`, liftparams says `%s`" % (p, pname))
        capl = split_top(caps)
        body = self.text[bs:match_brace(self.m, bs) + 1]
        mbody = mask(body)
        for c in capl:
            if c.startswith("="):
                continue
            cn = c.split(":")[0].strip()
            out, last = [], 0
            for mm in re.finditer(r"(?<![A-Za-z0-9_\.])%s(?![A-Za-z0-9_])" % re.escape(cn), mbody):
                out.append(body[last:mm.start()]); out.append("(*%s)" % cn); last = mm.end()
            out.append(body[last:])
            body = "".join(out)
            mbody = mask(body)
        plist = (["&self"] if prefix == "self." else []) + [pdecl]
        alist = [pname]
        for c in capl:
            if c.startswith("="):
                plist.append(c[1:].strip()); alist.append(c[1:].split(":")[0].strip())
            else:
                plist.append("%s: &mut %s" % (c.split(":")[0].strip(), c.split(":", 1)[1].strip())); alist.append("&mut %s" % c.split(":")[0].strip())
        lname = "vx_lifted_%s_fm%d" % (fn, k)
        lifted = "fn %s%s(%s) -> (vx_r: %s)\n/*+vx*/%s/*-vx*/\n%s\n\n  " % (lname, getattr(self, "lift_generics", {}).get(fn, ""), ", ".join(plist), rty, contract, body)
        wrap = getattr(self, "lift_wrap", {}).get(fn)
        if wrap:
            # the enclosing item is a trait impl: the lifted fn goes into an inherent impl block in front of it
            self.rewrite(0, 0, "%s\n%s}\n" % (wrap, lifted), "R3-lift-find-map")
        else:
            self.rewrite(self._stmt_start(k0), self._stmt_start(k0), lifted, "R3-lift-find-map")
        s0 = self._chain_start(bo + h.start())
        sfx = "" if k == 1 else str(k)
        self.rewrite(s0, s0, "{ let mut vx_fm%s = " % sfx, "R3-lift-find-map")
        self.rewrite(bo + h.start(), close + 1, ";\n  let mut vx_r%s = None;/*@pre*/\n  loop\n  /*@loop*/\n  {\n    let Some(%s) = vx_fm%s.next() else { break; };/*@body*/\n    let vx_e%s = %s%s(%s);\n    if vx_e%s.is_some() { vx_r%s = vx_e%s; break; }/*@tail*/\n  }\n  vx_r%s }"
                     % (sfx, pname, sfx, sfx, prefix, lname, ", ".join(alist), sfx, sfx, sfx, sfx), "R3-lift-find-map")

    def r3_lift_returned_closure(self, fn, k):
        """a function whose TAIL expression is a stateful closure `move |P| { BODY }` handed back as `impl FnMut` (state = locals of the
        function captured by value and mutated by BODY)  ==>  lambda lifting:
          fn vx_lifted_<fn>_rc(P, c1: &mut T1, .., v1: V1, ..) -> R { BODY with every state variable ci read as (*ci) }
        and the closure expression itself becomes `vx_rc_<fn>(c1, ..)` (a shim of the unit that carries the INITIAL state, so that the
        function's own contract can state it).  Captures and types come from `liftparams`, as for the other lift shapes."""
        if fn not in getattr(self, "lift", {}):
            raise Undecided("R3 lift-returned-closure: no liftparams for fn %s" % fn)
        pdecl, caps, rty, prefix, contract = self.lift[fn]
        k0, _, bo, end, _ = self.fn_span(fn)
        hits = list(re.finditer(r"(?:\bmove\s*)?\|([^|]*)\|\s*\{", self.m[bo:end]))
        if not hits:
            raise Undecided("LOST-ANCHOR: R3 lift-returned-closure in fn %s of %s" % (fn, self.where()))
        h = hits[-1]
        cs = bo + h.start()
        bs = bo + h.end() - 1
        bc = match_brace(self.m, bs)
        if self.m[bc + 1:end - 1].strip():
            raise Undecided("R3 lift-returned-closure: the closure is not the tail expression of fn %s" % fn)
        pname = pdecl.split(":")[0].strip()
        if re.sub(r"\s+", "", h.group(1).split(":")[0]) != re.sub(r"\s+", "", pname):
            raise Undecided("R3 lift-returned-closure: closure parameter is `%s`, liftparams says `%s`" % (h.group(1), pname))
        capl = split_top(caps)
        body = self.text[bs:bc + 1]
        mbody = mask(body)
        for c in capl:
            if c.startswith("="):
                continue
            cn = c.split(":")[0].strip()
            out, last = [], 0
            for mm in re.finditer(r"(?<![A-Za-z0-9_\.])%s(?![A-Za-z0-9_])" % re.escape(cn), mbody):
                out.append(body[last:mm.start()]); out.append("(*%s)" % cn); last = mm.end()
            out.append(body[last:])
            body = "".join(out)
            mbody = mask(body)
        plist, state = [pdecl], []
        for c in capl:
            if c.startswith("="):
                plist.append(c[1:].strip())
            else:
                plist.append("%s: &mut %s" % (c.split(":")[0].strip(), c.split(":", 1)[1].strip())); state.append(c.split(":")[0].strip())
        lname = "vx_lifted_%s_rc" % fn
        lifted = "fn %s%s(%s) -> (vx_r: %s)\n/*+vx*/%s/*-vx*/\n%s\n\n" % (lname, getattr(self, "lift_generics", {}).get(fn, ""), ", ".join(plist), rty, contract, body)
        self.rewrite(self._stmt_start(k0), self._stmt_start(k0), lifted, "R3-lift-returned-closure")
        self.rewrite(cs, bc + 1, "vx_rc_%s(%s)" % (fn, ", ".join(state)), "R3-lift-returned-closure")

    def r3_lift_from_fn(self, fn, k):
        """the k-th `std::iter::from_fn(move || { BODY })` of fn: an iterator that IS its stateful closure (state = locals of the
        function captured by value and mutated by BODY; `from_fn` calls it once per `next()`)  ==>  lambda lifting:
          fn vx_lifted_<fn>_ff<k>([&self,] c1: &mut T1, .., v1: V1, ..) -> Option<Item> { BODY with every state variable ci read as (*ci) }
        and, when the iterator is collected on the spot (`from_fn(..).collect::<Vec<_>>()`), the definition of collect over from_fn:
          { let mut vx_out = Vec::new(); loop { let vx_o = vx_lifted_..(&mut c1, .., v1, ..);
            match vx_o { Some(vx_x) => { vx_out.push(vx_x); } None => { break; } } } vx_out }
        otherwise the from_fn expression becomes `vx_ff_<fn>(c1, .., v1, ..)` (a shim of the unit that carries the INITIAL state).
        Captures and types come from `liftparams <fn>:ff<k>` (parameter list empty), as for the other lift shapes."""
        key = "%s:ff%d" % (fn, k)
        if key not in getattr(self, "lift", {}):
            raise Undecided("R3 lift-from-fn: no liftparams for %s" % key)
        pdecl, caps, rty, prefix, contract = self.lift[key]
        k0, _, bo, end, _ = self.fn_span(fn)
        hits = list(re.finditer(r"\b(?:std\s*::\s*)?iter\s*::\s*from_fn\s*\(\s*move\s*\|\s*\|\s*\{", self.m[bo:end]))
        if len(hits) < k:
            raise Undecided("LOST-ANCHOR: R3 lift-from-fn #%d in fn %s of %s" % (k, fn, self.where()))
        h = hits[k - 1]
        cs = bo + h.start()
        bs = bo + h.end() - 1
        bc = match_brace(self.m, bs)
        close = bc + 1
        while self.m[close].isspace():
            close += 1
        if self.m[close] != ")":
            raise Undecided("R3 lift-from-fn: `)` expected after the closure at %s:%d" % (self.relpath, self.line_of(bc)))
        capl = [c.strip() for c in split_top(caps) if c.strip()]
        body, r4note = self._apply_lift_r4(key, self.text[bs:bc + 1])
        mbody = mask(body)
        for c in capl:
            if c.startswith("="):
                continue
            cn = c.split(":")[0].strip()
            out, last = [], 0
            for mm in re.finditer(r"(?<![A-Za-z0-9_\.])(?<!old\()(?<!final\()%s(?![A-Za-z0-9_])" % re.escape(cn), mbody):
                out.append(body[last:mm.start()]); out.append("(*%s)" % cn); last = mm.end()
            out.append(body[last:])
            body = "".join(out)
            mbody = mask(body)
        plist = (["&self"] if prefix == "self." else [])
        alist, state = [], []
        for c in capl:
            if c.startswith("="):
                decl, _, arg = c[1:].partition(":=")
                plist.append(decl.strip()); alist.append((arg or decl.split(":")[0]).strip())
            else:
                cn = c.split(":")[0].strip()
                plist.append("%s: &mut %s" % (cn, c.split(":", 1)[1].strip())); alist.append("&mut %s" % cn); state.append(cn)
        lname = "vx_lifted_%s_ff%d" % (fn, k)
        ls_ = getattr(self, "lift_start", {}).get(key)
        if ls_:
            body = body[:1] + "/*+vx*/" + ls_ + "/*-vx*/" + body[1:]
        lifted = "fn %s%s(%s) -> (vx_r: %s)\n/*+vx*/%s/*-vx*/\n%s\n\n  " % (lname, getattr(self, "lift_generics", {}).get(key, ""), ", ".join(plist), rty, contract, body)
        fstart = self._stmt_start(k0)
        self.rewrite(fstart, fstart, lifted, "R3-lift-from-fn" + r4note)
        mc = re.match(r"\s*\.\s*collect\s*::\s*<\s*Vec\s*<\s*_\s*>\s*>\s*\(\s*\)", self.m[close + 1:end])
        if mc:
            mi = re.match(r"Option\s*<(.*)>\s*$", rty.strip(), re.S)
            if not mi:
                raise Undecided("R3 lift-from-fn: the result type of liftparams %s is not Option<..>" % key)
            self.rewrite(cs, close + 1 + mc.end(),
                         "{ let mut vx_out: Vec<" + mi.group(1).strip() + "> = Vec::new();/*@pre*/\n    loop\n    /*@loop*/\n    {\n      let vx_o = %s%s(%s);/*@body*/\n"
                         "      match vx_o { Some(vx_x) => { vx_out.push(vx_x); } None => { break; } }/*@tail*/\n    }\n    vx_out }"
                         % (prefix, lname, ", ".join(alist)), "R3-lift-from-fn")
        else:
            self.rewrite(cs, close + 1, "vx_ff_%s(%s)" % (fn, ", ".join(a_[5:] if a_.startswith("&mut ") else a_ for a_ in alist)), "R3-lift-from-fn")

    def r3_for_index(self, fn, k, mode="ref"):
        """for X in RECV { BODY }  (RECV a slice/Vec/&Vec expression) ==> index while-loop;
        `continue` inside BODY is preceded by the index increment; BODY stays in place.
        mode: ref  -> let X = &RECV[i];      val -> let X = RECV[i];   (iterators yielding Copy values)
              enum -> for (I, X) in RECV.iter().enumerate(): let I = i; let X = &RECV[i];
        The index variable is vx_i for loop #1 of the fn and vx_i<k> for loop #k."""
        ls = self.loops(fn)
        if k > len(ls) or ls[k - 1][0] != "for":
            raise Undecided("LOST-ANCHOR: R3 for-index loop %d of fn %s in %s" % (k, fn, self.where()))
        _, s, bopen, bclose = ls[k - 1]
        hdr = self.text[s:bopen]
        mo = re.match(r"for\s+(.+?)\s+in\s+(.+?)\s*$", hdr, re.S)
        if not mo:
            raise Undecided("R3 for-index: header not recognised")
        pat, recv = mo.group(1).strip(), mo.group(2).strip()
        iv = "vx_i" if k == 1 else "vx_i%d" % k
        inner = [x for x in ls if bopen < x[1] < bclose]
        r = recv[1:].strip() if recv.startswith("&") else recv
        pre = ""
        if mode == "enum":
            me = re.match(r"(.+?)\s*\.\s*iter\s*\(\s*\)\s*\.\s*enumerate\s*\(\s*\)$", r, re.S)
            mp = re.match(r"\(\s*([A-Za-z_][A-Za-z0-9_]*)\s*,\s*([A-Za-z_][A-Za-z0-9_]*)\s*\)$", pat)
            if not me or not mp:
                raise Undecided("R3 for-enumerate: header not recognised at %s:%d" % (self.relpath, self.line_of(s)))
            r = me.group(1).strip()
            bind = "let %s = %s; let %s = &%s[%s];" % (mp.group(1), iv, mp.group(2), r, iv)
        else:
            if mode == "bitset":
                # `for k in &SET` over a bit_set::BitSet: iterate the member list (trusted shim vx_bitset_members)
                r = "vx_bitset_members(&%s)" % r
                mode = "val"
            if mode == "mut":
                me = re.match(r"(.+?)\s*\.\s*iter_mut\s*\(\s*\)$", r, re.S)
                m2 = re.match(r"mut\s+([A-Za-z_][A-Za-z0-9_.]*)$", r)   # `for x in &mut v` (the leading & was stripped)
                if me:
                    r = me.group(1).strip()
                elif m2 and recv.startswith("&"):
                    r = m2.group(1)
                else:
                    raise Undecided("R3 for-index-mut: receiver is neither X.iter_mut() nor &mut X")
            me_ = re.match(r"([A-Za-z_][A-Za-z0-9_.]*)\s*\.\s*iter\s*\(\s*\)$", r)
            if mode == "ref" and me_:
                r = me_.group(1)     # `for x in v.iter()` is `for x in &v`
                recv = "&" + r
            if not re.match(r"[A-Za-z_][A-Za-z0-9_.]*$", r):
                # not a place expression: evaluate it once
                rv = "vx_recv" if k == 1 else "vx_recv%d" % k
                pre = "let %s = %s;\n    " % (rv, r)
                r = rv
            if mode == "ref" and pat.startswith("&") and re.match(r"&\s*[A-Za-z_][A-Za-z0-9_]*$", pat):
                # `for &x in RECV`: the element is copied out
                pat, mode = pat[1:].strip(), "val"
            bind = "let %s = %s%s[%s];" % (pat, {"ref": "&", "mut": "&mut ", "val": ""}[mode], r, iv)
        keep = None
        if pre and mode in ("ref", "val") and recv == self.text[s + mo.start(2):s + mo.end(2)].strip() and not recv.startswith("&"):
            # the receiver expression is evaluated once and STAYS IN PLACE (so that R4 shims can apply to it)
            keep = (s + mo.start(2), s + mo.end(2))
        if keep:
            self.rewrite(s, keep[0], "let %s = " % r, "R3-for-index")
            self.rewrite(keep[1], bopen + 1, ";\n    let mut %s: usize = 0;/*@pre*/\n    while %s < %s.len()\n    /*@loop*/\n    {\n      %s/*@body*/" % (iv, iv, r, bind), "R3-for-index")
        else:
            self.rewrite(s, bopen + 1, "%slet mut %s: usize = 0;/*@pre*/\n    while %s < %s.len()\n    /*@loop*/\n    {\n      %s/*@body*/" % (pre, iv, iv, r, bind), "R3-for-index")
        for c in re.finditer(r"\bcontinue\b", self.m[bopen + 1:bclose]):
            cpos = bopen + 1 + c.start()
            if any(lo_ < cpos < lc_ for (_, _, lo_, lc_) in inner):
                continue  # belongs to a nested loop
            self.rewrite(cpos, cpos + len("continue"), "{ %s = %s + 1; continue }" % (iv, iv), "R3-for-index")
        self.rewrite(bclose, bclose, "/*@tail*/  %s = %s + 1;\n    " % (iv, iv), "R3-for-index")

    def r3_for_owned_set(self, fn, k):
        """like for-owned, for a HashSet<&str> consumed by value: its elements as a list first (trusted vx_set_elems)"""
        self.r3_for_owned(fn, k, True)

    def r3_for_owned(self, fn, k, setmode=False):
        """for X in RECV { BODY } over an owned Vec (BODY consumes X): ==> explicit IntoIter loop
        let mut vx_it = vx_into_iter(RECV); loop { let Some(X) = vx_it.next() else { break; }; BODY }
        (vx_into_iter / VxIntoIter::next: trusted shim of std vec::IntoIter in prelude/into_iter.rs)"""
        ls = self.loops(fn)
        if k > len(ls) or ls[k - 1][0] != "for":
            raise Undecided("LOST-ANCHOR: R3 for-owned loop %d of fn %s in %s" % (k, fn, self.where()))
        _, s, bopen, bclose = ls[k - 1]
        mo = re.match(r"for\s+(.+?)\s+in\s+(.+?)\s*$", self.text[s:bopen], re.S)
        if not mo:
            raise Undecided("R3 for-owned: header not recognised")
        pat, recv = mo.group(1).strip(), mo.group(2).strip()
        iv = "vx_it" if k == 1 else "vx_it%d" % k
        if setmode:
            recv = "vx_set_elems(%s)" % recv
        self.rewrite(s, bopen + 1, "let mut %s = vx_into_iter(%s);/*@pre*/\n    loop\n    /*@loop*/\n    {\n      let Some(%s) = %s.next() else { break; };/*@body*/" % (iv, recv, pat, iv), "R3-for-owned")
        self.rewrite(bclose, bclose, "/*@tail*/", "R3-for-owned")

    def r3_for_iter(self, fn, k):
        """for X in ITER { BODY } where ITER is an iterator VALUE (IntoIterator is the identity on iterators)
        ==>  let mut vx_it = ITER; loop { let Some(X) = vx_it.next() else { break; }; BODY }   (the definition of `for`);
        ITER itself stays in place so that R4 shims can apply to it"""
        ls = self.loops(fn)
        if k > len(ls) or ls[k - 1][0] != "for":
            raise Undecided("LOST-ANCHOR: R3 for-iter loop %d of fn %s in %s" % (k, fn, self.where()))
        _, s, bopen, bclose = ls[k - 1]
        mo = re.match(r"for\s+(.+?)\s+in\s+", self.text[s:bopen], re.S)
        if not mo:
            raise Undecided("R3 for-iter: header not recognised")
        pat = mo.group(1).strip()
        r0 = s + mo.end()
        r1 = bopen
        while self.text[r1 - 1].isspace():
            r1 -= 1
        iv = "vx_it" if k == 1 else "vx_it%d" % k
        self.rewrite(s, r0, "let mut %s = " % iv, "R3-for-iter")
        self.rewrite(r1, bopen + 1, ";/*@pre*/\n    loop\n    /*@loop*/\n    {\n      let Some(%s) = %s.next() else { break; };/*@body*/" % (pat, iv), "R3-for-iter")
        self.rewrite(bclose, bclose, "/*@tail*/", "R3-for-iter")

    def r3_for_by_ref(self, fn, k):
        """for X in RECV.by_ref() { BODY }  ==>  loop { let Some(X) = RECV.next() else { break; }; BODY }
        (the definition of a for loop over `&mut I`)"""
        ls = self.loops(fn)
        if k > len(ls) or ls[k - 1][0] != "for":
            raise Undecided("LOST-ANCHOR: R3 for-by-ref loop %d of fn %s in %s" % (k, fn, self.where()))
        _, s, bopen, bclose = ls[k - 1]
        mo = re.match(r"for\s+(.+?)\s+in\s+(.+?)\s*\.\s*by_ref\s*\(\s*\)\s*$", self.text[s:bopen], re.S)
        if not mo:
            raise Undecided("R3 for-by-ref: header not recognised")
        pat, recv = mo.group(1).strip(), mo.group(2).strip()
        self.rewrite(s, bopen + 1, "loop\n    /*@loop*/\n    {\n      let Some(%s) = %s.next() else { break; };/*@body*/" % (pat, recv), "R3-for-by-ref")

    def _r3_map_iter(self, fn, k, what):
        """for X in RECV.keys() / RECV.values() { BODY } over a HashMap<String, V>  ==>  index loop over the key
        list: let vx_keysK = vx_map_keys(RECV); while i < len { let X = vx_keysK[i]  |  vx_map_index(RECV, vx_keysK[i]); BODY }
        (vx_map_keys: every key exactly once, in the map's unspecified order; vx_map_index: &m[k]; trusted shims)"""
        ls = self.loops(fn)
        if k > len(ls) or ls[k - 1][0] != "for":
            raise Undecided("LOST-ANCHOR: R3 for-%s loop %d of fn %s in %s" % (what, k, fn, self.where()))
        _, s, bopen, bclose = ls[k - 1]
        if what == "entries":
            # `for (K, V) in RECV` over a `&HashMap<String, V>`: every entry once (key and `&m[key]`), in the map's unspecified order
            mo = re.match(r"for\s+(\(\s*[A-Za-z_]\w*\s*,\s*[A-Za-z_]\w*\s*\))\s+in\s+&?\s*([A-Za-z_][\w.]*)\s*$", self.text[s:bopen], re.S)
        else:
            mo = re.match(r"for\s+(.+?)\s+in\s+(.+?)\s*\.\s*%s\s*\(\s*\)\s*$" % what, self.text[s:bopen], re.S)
        if not mo:
            raise Undecided("R3 for-%s: header not recognised" % what)
        pat, recv = mo.group(1).strip(), mo.group(2).strip()
        if "borrow" in (getattr(self, "r3_extra", None) or []) and not recv.startswith("&"):
            # 4th argument `borrow`: RECV is an owned place (`self.field`), the shims take a reference
            recv = "&" + recv
        sfx = "" if k == 1 else str(k)
        iv, kv = "vx_i" + sfx, "vx_keys" + sfx
        inner = [x for x in ls if bopen < x[1] < bclose]
        if what == "entries":
            kn, vn = [x.strip() for x in pat.strip("()").split(",")]
            bind = "let %s = %s[%s]; let %s = vx_map_index(%s, %s[%s]);" % (kn, kv, iv, vn, recv, kv, iv)
        else:
            bind = "let %s = %s[%s];" % (pat, kv, iv) if what == "keys" else "let %s = vx_map_index(%s, %s[%s]);" % (pat, recv, kv, iv)
        self.rewrite(s, bopen + 1, "let %s = vx_map_keys(%s);/*@pre*/\n    let mut %s: usize = 0;\n    while %s < %s.len()\n    /*@loop*/\n    {\n      %s/*@body*/"
                     % (kv, recv, iv, iv, kv, bind), "R3-for-%s" % what)
        for c in re.finditer(r"\bcontinue\b", self.m[bopen + 1:bclose]):
            cpos = bopen + 1 + c.start()
            if any(lo_ < cpos < lc_ for (_, _, lo_, lc_) in inner):
                continue
            self.rewrite(cpos, cpos + len("continue"), "{ %s = %s + 1; continue }" % (iv, iv), "R3-for-%s" % what)
        self.rewrite(bclose, bclose, "/*@tail*/  %s = %s + 1;\n    " % (iv, iv), "R3-for-%s" % what)

    def r3_try_for_each_values_expr(self, fn, k):
        """tail expression `RECV.values().try_for_each(|P| BODY)` over a HashMap<String, V> (BODY: Result<(), E> without `return` / `?`)
        ==>  the definition of Iterator::try_for_each: run BODY on every value, hand back the FIRST error, Ok(()) when there is none:
        { let vx_keys = vx_map_keys(RECV); let mut vx_i = 0; while vx_i < vx_keys.len() { let P = vx_map_index(RECV, vx_keys[vx_i]);
          let vx_e = BODY; match vx_e { Ok(_) => {} Err(vx_err) => { return Err(vx_err); } } vx_i += 1; } Ok(()) }        (BODY stays in place)"""
        k0, _, bo, end, _ = self.fn_span(fn)
        hits = list(re.finditer(r"\.\s*values\s*\(\s*\)\s*\.\s*try_for_each\s*\(", self.m[bo:end]))
        if len(hits) < k:
            raise Undecided("LOST-ANCHOR: R3 try-for-each-values-expr #%d in fn %s of %s" % (k, fn, self.where()))
        h = hits[k - 1]
        par = bo + h.end() - 1
        p, bs, be, close = self._closure_after(par)
        if re.search(r"\breturn\b|\?", self.m[bs:be]):
            raise Undecided("R3 try-for-each-values-expr: the closure body leaves early (return / ?)")
        if self.m[close + 1:end - 1].strip():
            raise Undecided("R3 try-for-each-values-expr: not the tail expression of fn %s" % fn)
        s0 = self._stmt_start(bo + h.start())
        recv = self.text[s0:bo + h.start()].strip()
        if not re.match(r"&?[A-Za-z_][A-Za-z0-9_.]*$", recv):
            raise Undecided("R3 try-for-each-values-expr: receiver is not a place expression at %s:%d" % (self.relpath, self.line_of(s0)))
        r_ = recv if recv.startswith("&") else "&" + recv
        self.rewrite(s0, bs, "{ let vx_keys = vx_map_keys(%s);/*@pre*/\n    let mut vx_i: usize = 0;\n    while vx_i < vx_keys.len()\n    /*@loop*/\n    {\n      let %s = vx_map_index(%s, vx_keys[vx_i]);/*@body*/\n      let vx_e = " % (r_, p, r_), "R3-try-for-each-values")
        self.rewrite(be, close + 1, ";\n      match vx_e { Ok(_) => {} Err(vx_err) => { return Err(vx_err); } }/*@tail*/\n      vx_i = vx_i + 1;\n    }\n    Ok(()) }", "R3-try-for-each-values")

    def r3_try_for_each_expr(self, fn, k):
        """the k-th expression `RECV.iter().try_for_each(|P| BODY)` of fn (RECV a slice / Vec expression, BODY: Result<(), E> without
        `return` / `?`), in ANY expression position  ==>  the definition of Iterator::try_for_each over a slice: BODY on every element in
        order, the FIRST error is the result, Ok(()) when there is none:
        { let vx_s = RECV; let mut vx_r = Ok(()); let mut vx_i = 0; while vx_i < vx_s.len() { let P = &vx_s[vx_i]; let vx_e = BODY;
          if vx_e.is_err() { vx_r = vx_e; break; } vx_i += 1; } vx_r }        (RECV and BODY stay in place; names get the suffix k for k > 1)"""
        k0, _, bo, end, _ = self.fn_span(fn)
        hits = list(re.finditer(r"\.\s*iter\s*\(\s*\)\s*\.\s*try_for_each\s*\(", self.m[bo:end]))
        if len(hits) < k:
            raise Undecided("LOST-ANCHOR: R3 try-for-each-expr #%d in fn %s of %s" % (k, fn, self.where()))
        h = hits[k - 1]
        par = bo + h.end() - 1
        p, bs, be, close = self._closure_after(par)
        if re.search(r"\breturn\b|\?", self.m[bs:be]):
            raise Undecided("R3 try-for-each-expr: the closure body leaves early (return / ?)")
        s0 = self._chain_start(bo + h.start())
        sfx = "" if k == 1 else str(k)
        self.rewrite(s0, s0, "{ let vx_s%s = " % sfx, "R3-try-for-each")
        self.rewrite(bo + h.start(), bs, ";\n        let mut vx_r%s = Ok(());\n        let mut vx_i%s: usize = 0;/*@pre*/\n        while vx_i%s < vx_s%s.len()\n        /*@loop*/\n        {\n          let %s = &vx_s%s[vx_i%s];/*@body*/\n          let vx_e%s = "
                     % (sfx, sfx, sfx, sfx, p, sfx, sfx, sfx), "R3-try-for-each")
        self.rewrite(be, close + 1, ";\n          if vx_e%s.is_err() { vx_r%s = vx_e%s; break; }/*@tail*/\n          vx_i%s = vx_i%s + 1;\n        }\n        vx_r%s }"
                     % (sfx, sfx, sfx, sfx, sfx, sfx), "R3-try-for-each")

    def r3_for_values(self, fn, k):
        self._r3_map_iter(fn, k, "values")

    def r3_for_keys(self, fn, k):
        self._r3_map_iter(fn, k, "keys")

    def r3_for_entries(self, fn, k):
        self._r3_map_iter(fn, k, "entries")

    def r3_for_index_mut(self, fn, k):
        self.r3_for_index(fn, k, "mut")

    def r3_for_index_val(self, fn, k):
        self.r3_for_index(fn, k, "val")

    def r3_for_enumerate(self, fn, k):
        self.r3_for_index(fn, k, "enum")

    def r3_for_bitset(self, fn, k):
        self.r3_for_index(fn, k, "bitset")

    def r3_break_return(self, fn, k):
        """`loop { .. break E; .. }` as the TAIL expression of fn: each `break E` (of that loop) becomes
        `return E` -- the same thing when the loop's value is the function's value"""
        ls = self.loops(fn)
        if k > len(ls) or ls[k - 1][0] != "loop":
            raise Undecided("LOST-ANCHOR: R3 break-return loop %d of fn %s in %s" % (k, fn, self.where()))
        _, s, bopen, bclose = ls[k - 1]
        _, _, fbo, fend, _ = self.fn_span(fn)
        if self.m[bclose + 1:fend - 1].strip():
            raise Undecided("R3 break-return: loop is not the tail expression of fn %s" % fn)
        inner = [x for x in ls if bopen < x[1] < bclose]
        for c in re.finditer(r"\bbreak\b", self.m[bopen + 1:bclose]):
            cpos = bopen + 1 + c.start()
            if any(lo_ < cpos < lc_ for (_, _, lo_, lc_) in inner):
                continue
            self.rewrite(cpos, cpos + len("break"), "return", "R3-break-return")

    def r3_let_loop_break(self, fn, k):
        """`let V = loop { .. break E; .. };` (this Verus has no `break` with a value)  ==>
        let mut vx_lb: T = INIT; loop { .. { vx_lb = E; break; } .. } let V = vx_lb;        (T and INIT from `loopinit`)"""
        ls = self.loops(fn)
        if k > len(ls) or ls[k - 1][0] != "loop":
            raise Undecided("LOST-ANCHOR: R3 let-loop-break loop %d of fn %s in %s" % (k, fn, self.where()))
        _, s, bopen, bclose = ls[k - 1]
        s0 = self._stmt_start(s)
        mo = re.match(r"let\s+([A-Za-z_]\w*)\s*=\s*$", self.text[s0:s])
        semi = bclose + 1
        while self.text[semi].isspace():
            semi += 1
        if not mo or self.text[semi] != ";" or fn not in getattr(self, "loop_init", {}):
            raise Undecided("R3 let-loop-break: `let V = loop { .. };` with a loopinit expected at %s:%d" % (self.relpath, self.line_of(s0)))
        var = mo.group(1)
        ty, init = self.loop_init[fn]
        inner = [x for x in ls if bopen < x[1] < bclose]
        self.rewrite(s0, s, "let mut vx_lb: %s = %s;\n  " % (ty, init), "R3-let-loop-break")
        for c in re.finditer(r"\bbreak\b\s*([^;]*);", self.m[bopen + 1:bclose]):
            cpos = bopen + 1 + c.start()
            if any(lo_ < cpos < lc_ for (_, _, lo_, lc_) in inner):
                continue
            expr = self.text[bopen + 1 + c.start(1):bopen + 1 + c.end(1)].strip()
            if not expr:
                raise Undecided("R3 let-loop-break: a `break` without a value")
            self.rewrite(cpos, bopen + 1 + c.end(), "{ vx_lb = %s; break; }" % expr, "R3-let-loop-break")
        self.rewrite(semi, semi + 1, "\n  let %s = vx_lb;" % var, "R3-let-loop-break")

    def r3_for_rev(self, fn, k):
        """for PAT in RECV.iter().rev() { BODY }  ==>  index loop from RECV.len() down to 0
        (the index is decremented at the start of the body, so break/continue need no rewriting)"""
        ls = self.loops(fn)
        if k > len(ls) or ls[k - 1][0] != "for":
            raise Undecided("LOST-ANCHOR: R3 for-rev loop %d of fn %s in %s" % (k, fn, self.where()))
        _, s, bopen, bclose = ls[k - 1]
        hdr = self.text[s:bopen]
        mo = re.match(r"for\s+(.+?)\s+in\s+(.+?)\s*\.\s*iter\s*\(\s*\)\s*\.\s*rev\s*\(\s*\)\s*$", hdr, re.S)
        if not mo:
            raise Undecided("R3 for-rev: header not recognised at %s:%d" % (self.relpath, self.line_of(s)))
        pat, recv = mo.group(1).strip(), mo.group(2).strip()
        if pat.startswith("&"):
            bind = "let %s = %s[vx_i];" % (pat[1:].strip(), recv)
        else:
            bind = "let %s = &%s[vx_i];" % (pat, recv)
        self.rewrite(s, bopen + 1, "let mut vx_i: usize = %s.len();\n    while vx_i > 0\n    /*@loop*/\n    {\n      vx_i = vx_i - 1;\n      %s/*@body*/" % (recv, bind), "R3-for-rev")

    # -- output ----------------------------------------------------------------------------------
    def render(self):
        # attributes bind to the item that follows: emit them after any other ghost text woven at the same position
        # (item attributes given with `pre` go before an R1 `pub` inserted at the item start)
        es = sorted(self.edits, key=lambda e: (e[0], e[1], 1 if e[3] == "ghost-attr" else (-1 if (e[0] == 0 and e[3] == "ghost") else 0)))
        for a, b in zip(es, es[1:]):
            if a[1] > b[0]:
                raise Undecided("overlapping weave edits in %s at %d/%d" % (self.where(), a[0], b[0]))
        out, last = [], 0
        linemap = []  # list of (generated text chunk, origin line or None)
        for (s, e, repl, tag, orig) in es:
            out.append(("src", self.text[last:s], self.line_of(last)))
            out.append((tag, repl, self.line_of(s)))
            last = e
        out.append(("src", self.text[last:], self.line_of(last)))
        # `forbid "<regex>" "<why>"`: a construct that needs a shim and would reach the verifier without one (an optional redirection
        # did not apply to it) makes the unit UNDECIDED -- an unmodelled construct must never surface as a failed obligation
        woven = "".join(x[1] for x in out)
        for rx, why in getattr(self, "forbidden", []):
            if re.search(rx, woven, re.S):
                raise Undecided("unsupported construct (%s) in %s" % (why, self.where()))
        return out


def split_top(text, sep=","):
    """split at separators that are not inside <>, (), [] or {}"""
    out, dep, last = [], 0, 0
    for i, ch in enumerate(text):
        if ch in "<([{":
            dep += 1
        elif ch in ">)]}" and not (ch == ">" and i > 0 and text[i - 1] == "-"):
            dep -= 1
        elif ch == sep and dep == 0:
            out.append(text[last:i]); last = i + 1
    out.append(text[last:])
    return [x.strip() for x in out if x.strip()]


def erase(generated, logs):
    """inverse of weaving: strip ghost spans, restore logged originals"""
    def back(mo):
        return logs[int(mo.group(1))]["before"]
    # an inlined function (R3 inline-hof) is restored wholesale first: everything woven inside it goes with it
    generated = re.sub(r"/\*\+vxI:(\d+)\*/.*?/\*-vxI\*/", back, generated, flags=re.S)
    s = re.sub(r"/\*\+vx\*/.*?/\*-vx\*/", "", generated, flags=re.S)
    s = re.sub(r"/\*\+vxR:(\d+)\*/.*?/\*-vxR\*/", back, s, flags=re.S)
    return s


def tokens(s):
    return re.findall(r"[A-Za-z_][A-Za-z0-9_]*|\d+|\S", mask(s).replace(" ", " "))


def tokens_keep_strings(s):
    m = mask(s)
    # keep literals: compare original text where mask kept it, plus literal contents verbatim
    toks = []
    for mo in re.finditer(r"\S+", s):
        toks.append(mo.group(0))
    # comments are not code: drop them
    nc = []
    i = 0
    res = []
    while i < len(s):
        if m[i] == " " and s[i] != " " and (s.startswith("//", i) or s.startswith("/*", i)):
            # comment: skip until mask differs no more
            if s.startswith("//", i):
                j = s.find("\n", i)
                j = len(s) if j < 0 else j
            else:
                depth, j = 1, i + 2
                while j < len(s) and depth:
                    if s.startswith("/*", j):
                        depth += 1
                        j += 2
                    elif s.startswith("*/", j):
                        depth -= 1
                        j += 2
                    else:
                        j += 1
            i = j
        else:
            res.append(s[i])
            i += 1
    return re.findall(r"[A-Za-z_][A-Za-z0-9_]*|\d+|\S", "".join(res))


# --------------------------------------------------------------------------------------------------
# Template processing
# --------------------------------------------------------------------------------------------------

BLOCK_RE = re.compile(r"/\*@extract\s+(.*?)\n(.*?)@\*/", re.S)


def parse_directives(body):
    """yield (name, args, payload)"""
    lines = body.split("\n")
    i = 0
    while i < len(lines):
        ln = lines[i].strip()
        i += 1
        if not ln or ln.startswith("#"):
            continue
        payload = None
        if ln.endswith("<<<"):
            ln = ln[:-3].strip()
            buf = []
            while i < len(lines) and lines[i].strip() != ">>>":
                buf.append(lines[i])
                i += 1
            i += 1
            payload = "\n".join(buf)
        elif "<<<" in ln and ln.endswith(">>>"):
            a = ln.index("<<<")
            payload = ln[a + 3:-3].strip()
            ln = ln[:a].strip()
        # split args, honouring "quoted strings"
        args = re.findall(r'"((?:[^"\\]|\\.)*)"|(\S+)', ln)
        args = [a if a or not b else b for (a, b) in args]
        args = [a.replace('\\"', '"') for a in args]
        yield args[0], args[1:], payload


def build_unit(unit_path, repo=REPO):
    """returns dict(generated=str, items=[...], linemap=[...], log=[...])"""
    tmpl = open(unit_path).read()
    for _ in range(4):  # nested includes
        tmpl = re.sub(r"/\*@include\s+(\S+?)\s*@\*/", lambda mo: open(os.path.join(HERE, mo.group(1))).read(), tmpl)
    gen_chunks = []   # (text, origin) origin = ("tmpl", line) | ("repo", relpath, line) | ("ghost", relpath, line)
    items = []
    pos = 0
    tline = 1
    for mo in BLOCK_RE.finditer(tmpl):
        pre = tmpl[pos:mo.start()]
        gen_chunks.append((pre, ("tmpl", tline)))
        tline += pre.count("\n") + mo.group(0).count("\n")
        pos = mo.end()
        head = mo.group(1).strip()
        relpath, _, locs = head.partition("::")
        relpath = relpath.strip()
        locators = [l.strip() for l in locs.split(" :: ")]
        locators = [l for l in (x.strip(": ").strip() for x in locs.split("::")) if l]
        # re-join impl headers that contain `::` (e.g. D::Lang)
        fixed = []
        for l in locators:
            if fixed and not re.match(r"(fn|struct|enum|trait|impl|type|const|mod)\b", l):
                fixed[-1] += "::" + l
            else:
                fixed.append(l)
        locators = fixed
        path = os.path.join(repo, relpath)
        if not os.path.exists(path):
            raise Undecided("LOST-ANCHOR: file %s missing" % relpath)
        src = open(path).read()
        try:
            s, e = locate(src, mask(src), locators)
        except Undecided:
            # `optional`: a helper that a function under contract may or may not use (its contract matters only when it is called --
            # then the call fails to resolve and the unit is undecided, never silently passed)
            if re.match(r"\s*optional\b", mo.group(2)):
                gen_chunks.append(("// (optional item %s :: %s is not in this tree)\n" % (relpath, " :: ".join(locators)), ("tmpl", tline)))
                continue
            raise
        it = Item(relpath, locators, src[s:e], src.count("\n", 0, s) + 1)
        renames = []
        for name, args, payload in parse_directives(mo.group(2)):
            if name == "as" and args == ["canary"]:
                it.canary = True
            elif name == "optional":
                pass
            elif name == "rename":
                renames.append((args[0], args[1]))
            elif name == "only":
                it.d_only([a for x in args for a in x.split(",") if a])
            elif name == "ret":
                it.d_ret(args[0], args[1])
            elif name == "sig":
                it.d_sig(args[0], payload)
            elif name == "attr":
                it.d_attr(args[0], payload)
            elif name == "start":
                it.d_start(args[0], payload)
            elif name == "prologue":
                # R9-interior: prologue <fn> <<< exec statement >>> -- an executable statement put at the start of the body
                # (used to move a by-value `self` into a mutable local when a `&self` method with interior mutation is
                # checked as the `&mut self` method it behaves as).  Logged like every rewrite; erased by `erase`.
                bo_ = it.fn_span(args[0])[2]
                it.rewrite(bo_ + 1, bo_ + 1, "\n" + payload.strip() + "\n", "R9-interior")
            elif name == "pre":
                it.ghost(0, payload + "\n")
            elif name == "loop":
                it.d_loop(args[0], int(args[1]), payload)
            elif name == "stubbody":
                # R8: the body of fn is NOT taken over (outside Verus); the fn keeps its signature and becomes an
                # assumed contract (external_body).  Logged; listed in trusted_base.
                k_, pc_, bo_, end_, _ = it.fn_span(args[0])
                if bo_ is None:
                    raise Undecided("stubbody: fn %s has no body" % args[0])
                it.rewrite(bo_, end_, "{ unimplemented!() }", "R8-stubbody")
                it.d_attr(args[0], "#[verifier::external_body]")
            elif name == "beforeloop":
                ls_ = it.loops(args[0])
                if int(args[1]) > len(ls_):
                    raise Undecided("LOST-ANCHOR: loop %s of fn %s in %s" % (args[1], args[0], it.where()))
                it.ghost(ls_[int(args[1]) - 1][1], payload + "\n")
            elif name == "loopstart":
                ls_ = it.loops(args[0])
                if int(args[1]) > len(ls_):
                    raise Undecided("LOST-ANCHOR: loop %s of fn %s in %s" % (args[1], args[0], it.where()))
                it.ghost(ls_[int(args[1]) - 1][2] + 1, "\n" + payload + "\n")
            elif name == "loopend":
                ls_ = it.loops(args[0])
                if int(args[1]) > len(ls_):
                    raise Undecided("LOST-ANCHOR: loop %s of fn %s in %s" % (args[1], args[0], it.where()))
                it.ghost(ls_[int(args[1]) - 1][3], "\n" + payload + "\n")
            elif name == "afterloop":
                ls_ = it.loops(args[0])
                if int(args[1]) > len(ls_):
                    raise Undecided("LOST-ANCHOR: loop %s of fn %s in %s" % (args[1], args[0], it.where()))
                it.ghost(ls_[int(args[1]) - 1][3] + 1, "\n" + payload + "\n")
            elif name == "forit":
                it.d_forit(args[0], int(args[1]), args[2])
            elif name == "before":
                it.d_before(args[0], args[1], payload, int(args[2][1:]) if len(args) > 2 and args[2].startswith("#") else None)
            elif name == "after":
                it.d_after(args[0], args[1], payload, int(args[2][1:]) if len(args) > 2 and args[2].startswith("#") else None)
            elif name == "beforestmt":
                # beforestmt <fn> "<text inside the statement>" <<< ghost >>>: ghost text before the START of the statement that
                # contains the anchor (an `if let .. = &rule.all {` can become a `match &rule.all {`, a local can be renamed)
                a_, b_ = it.find_in_fn(args[0], args[1], int(args[2][1:]) if len(args) > 2 and args[2].startswith("#") else None)
                it.ghost(it._stmt_start_in_fn(args[0], a_), "\n" + payload + "\n")
            elif name == "afterstmt":
                # afterstmt <fn> "<how the statement starts>" <<< ghost >>>: ghost text after the `;` that ends the statement
                # beginning with the anchor (the rest of the statement may change without losing the anchor)
                a_, b_ = it.find_in_fn(args[0], args[1], int(args[2][1:]) if len(args) > 2 and args[2].startswith("#") else None)
                j_, dep_ = b_, 0
                # brackets the anchor itself leaves open
                for ch_ in it.m[a_:b_]:
                    if ch_ in "([{":
                        dep_ += 1
                    elif ch_ in ")]}":
                        dep_ -= 1
                if it.m[b_ - 1] == ";":
                    j_ = b_ - 1
                while j_ < len(it.m):
                    ch_ = it.m[j_]
                    if ch_ in "([{":
                        dep_ += 1
                    elif ch_ in ")]}":
                        dep_ -= 1
                        if dep_ < 0:
                            raise Undecided("LOST-ANCHOR: statement `%s` of fn %s in %s does not end with `;`" % (args[1], args[0], it.where()))
                    elif ch_ == ";" and dep_ == 0:
                        break
                    j_ += 1
                it.ghost(j_ + 1, "\n" + payload + "\n")
            elif name in ("R3", "R3opt"):
                it.pending_r3 = getattr(it, "pending_r3", []) + [(args[0], args[1], int(args[2]) if len(args) > 2 else 1, payload)]
                it.r3_extra = args[3:]
                try:
                    it.d_R3(args[0], args[1], int(args[2]) if len(args) > 2 else 1)
                except Undecided as e_:
                    # R3opt: the statement the shape stands for may be absent (then its ghost payload is dropped with it, and
                    # the function's contract has to hold without it)
                    if name == "R3opt" and "LOST-ANCHOR" in str(e_):
                        continue
                    raise
                if payload is not None:
                    # payload = invariant for the generated loop
                    for ei in range(len(it.edits) - 1, -1, -1):
                        ed = it.edits[ei]
                        if "/*@loop*/" in ed[2]:
                            pretxt = ""
                            if "---pre---" in payload:
                                pretxt, _, payload = payload.partition("---pre---")
                            inv, _, bodytxt = payload.partition("---body---")
                            bodytxt, _, tailtxt = bodytxt.partition("---tail---")
                            if tailtxt.strip():
                                # ghost text at the end of the generated loop body (the marker sits in the LAST edit of the shape)
                                for ej in range(len(it.edits) - 1, -1, -1):
                                    if "/*@tail*/" in it.edits[ej][2]:
                                        e2 = it.edits[ej]
                                        it.edits[ej] = (e2[0], e2[1], e2[2].replace("/*@tail*/", "/*+vx*/" + tailtxt + "/*-vx*/"), e2[3], e2[4])
                                        break
                                else:
                                    raise Undecided("R3: this shape has no ---tail--- hook")
                            new = ed[2].replace("/*@loop*/", "/*+vx*/" + inv + "/*-vx*/")
                            if pretxt.strip():
                                if "/*@pre*/" not in new:
                                    raise Undecided("R3: this shape has no ---pre--- hook")
                                new = new.replace("/*@pre*/", "/*+vx*/" + pretxt + "/*-vx*/")
                            if bodytxt.strip():
                                if "/*@body*/" not in new:
                                    raise Undecided("R3: this shape has no ---body--- hook")
                                new = new.replace("/*@body*/", "/*+vx*/" + bodytxt + "/*-vx*/")
                            it.edits[ei] = (ed[0], ed[1], new, ed[3], ed[4])
                            break
            elif name == "liftparams":
                # liftparams <fn> "<closure parameter: name: Type>" "<captured mutable variables: name: Type, ...>" "<result type>" "<call prefix>" <<< contract of the lifted fn >>>
                it.lift = getattr(it, "lift", {})
                it.lift[args[0]] = (args[1], args[2], args[3], args[4] if len(args) > 4 else "", payload or "")
            elif name == "liftstart":
                # liftstart <key> <<< ghost >>>: ghost text at the start of the lifted fn's body
                it.lift_start = getattr(it, "lift_start", {})
                it.lift_start[args[0]] = payload or ""
            elif name == "liftgenerics":
                # liftgenerics <fn> "<'a, T: Bound>": generic parameters of the lifted fn
                it.lift_generics = getattr(it, "lift_generics", {})
                it.lift_generics[args[0]] = args[1]
            elif name == "loopinit":
                # loopinit <fn> "<type>" "<initial value>": for R3 let-loop-break
                it.loop_init = getattr(it, "loop_init", {})
                it.loop_init[args[0]] = (args[1], args[2])
            elif name == "hofnames":
                it.hof_names = getattr(it, "hof_names", {})
                it.hof_names[args[0]] = [x.strip() for x in args[1].split(",")]
            elif name == "inlinehof":
                # inlinehof <fn> <callee relpath> :: <locators of the callee fn>   (must precede the other directives of the block)
                if it.edits:
                    raise Undecided("inlinehof must be the first directive of its block")
                rel2, _, loc2 = " ".join(args[1:]).partition("::")
                locs2 = [l.strip() for l in loc2.split("::") if l.strip()]
                fixed2 = []
                for l in locs2:
                    if fixed2 and not re.match(r"(fn|struct|enum|trait|impl|type|const|mod)\b", l):
                        fixed2[-1] += "::" + l
                    else:
                        fixed2.append(l)
                src2 = open(os.path.join(repo, rel2.strip())).read()
                s2, e2 = locate(src2, mask(src2), fixed2)
                cname = re.match(r"fn\s+(\w+)", fixed2[-1]).group(1)
                for _pass in range(6):
                    it.inline_hof(args[0], src2[s2:e2], cname)
                    k0_, _, bo_, end_, _ = it.fn_span(args[0])
                    if not re.search(r"\.\s*%s\s*\(" % re.escape(cname), it.m[bo_:end_]):
                        break
            elif name == "liftwrap":
                # liftwrap <fn> "<impl header {>": lifted fns of fn are emitted in front of the item inside this inherent impl block
                it.lift_wrap = getattr(it, "lift_wrap", {})
                it.lift_wrap[args[0]] = args[1]
            elif name == "forbid":
                it.forbidden = getattr(it, "forbidden", []) + [(args[0], args[1] if len(args) > 1 else "no shim")]
            elif name in ("liftR4", "liftR4opt"):
                # liftR4 <fn> "<old>" "<new>": an R4 redirection applied inside the closure body that a lift shape lifts (opt: may be absent)
                it.lift_r4 = getattr(it, "lift_r4", {})
                it.lift_r4.setdefault(args[0], []).append((args[1], args[2], name == "liftR4opt"))
            elif name == "R4":
                it.d_R4(args[0], args[1], "R4")
            elif name == "R4opt":
                # like R4, but the target may be absent (the code no longer uses that construct)
                try:
                    it.d_R4(args[0], args[1], "R4")
                except Undecided:
                    pass
            elif name == "R6":
                it.d_R4(args[0], args[1], "R6")
            elif name == "R1":
                it.d_R4(args[0], args[1], "R1")
            elif name == "inherent":
                # R7-inherent: a trait impl's method is verified as an inherent method of the same type (same body,
                # same self type) so that it can carry `requires` (Verus forbids `requires` on trait impl methods);
                # what is dropped: the fact that the method is reached through the trait
                it.d_R4(args[0], args[1], "R7-inherent")
            elif name in ("closure", "closureopt"):
                # closure <fn> "<anchor: the closure text `|..| EXPR`>" <<< ensures ... >>> : names the closure's
                # result vx_c and states its postcondition (ghost); the body EXPR stays in place, braces are added
                occ = int(args[3][1:]) if len(args) > 3 and args[3].startswith("#") else None
                try:
                    a, b = it.find_in_fn(args[0], args[1], occ)
                except Undecided:
                    if name == "closureopt":
                        continue
                    raise
                bar2 = it.text.index("|", it.text.index("|", a) + 1)
                if args[1].rstrip().endswith("|"):
                    # only the parameter list was given: the closure body ends at the matching brace, or at the
                    # closing parenthesis / comma of the enclosing call
                    j = bar2 + 1
                    while it.m[j].isspace():
                        j += 1
                    if it.m[j] == "{":
                        b = match_brace(it.m, j) + 1
                    else:
                        dep = 0
                        while j < len(it.m):
                            ch = it.m[j]
                            if ch in "([{":
                                dep += 1
                            elif ch in ")]}":
                                if dep == 0:
                                    break
                                dep -= 1
                            elif ch == "," and dep == 0:
                                break
                            j += 1
                        b = j
                it.ghost(bar2 + 1, " -> (vx_c: %s)\n" % (args[2] if len(args) > 2 else "_") + payload + "\n{")
                it.ghost(b, "}")
            elif name == "dropattrs":
                it.d_dropattrs()
            elif name == "pubfields":
                it.d_pubfields()
            elif name == "nodefault":
                it.d_nodefault(args[0])
            elif name == "implfix":
                # if the impl defines fn itself, give it the same `impl Trait` -> generic rewrite as the trait
                if re.search(r"\bfn\s+" + re.escape(args[0]) + r"\b", it.m):
                    for (o_, n_) in getattr(it, "inherit_repl", []):
                        it.d_R4(o_, n_, "R6")
            elif name == "inheritR":
                it.inherit_repl = getattr(it, "inherit_repl", []) + [(args[0], args[1])]
            elif name == "inherit":
                # inherit <fn> <relpath> :: trait X    (R7: materialise an inherited default method)
                rel2, _, loc2 = " ".join(args[1:]).partition("::")
                it.d_inherit(args[0], rel2.strip(), [l.strip() for l in loc2.split("::") if l.strip()], repo)
            elif name == "R5":
                it.d_R5()
            elif name == "drop":
                it.d_drop(args[0])
            else:
                raise Undecided("unknown directive %s in %s" % (name, unit_path))
        for (fn_, n_) in getattr(it, "inlined", []):
            k0_, _, _, end_, _ = it.fn_span(fn_)
            it.add(it._stmt_start(k0_), it._stmt_start(k0_), "/*+vxI:%d*/" % n_, "ghost-attr")
            it.add(end_, end_, "/*-vxI*/", "rewrite-raw")
        parts = it.render()
        text = "".join(p[1] for p in parts).replace("/*@loop*/", "").replace("/*@body*/", "").replace("/*@pre*/", "")
        # erasure check
        back = erase(text, it.log)
        if tokens_keep_strings(back) != tokens_keep_strings(getattr(it, "orig_text", it.text)):
            raise Undecided("ERASURE-MISMATCH in %s" % it.where())
        for (old, new) in renames:
            text = re.sub(r"\b%s\b" % re.escape(old), new, text)
            it.log.append({"rule": "R1-rename", "where": it.where(), "before": old, "after": new})
        for (tag, chunk, line) in parts:
            pass
        it.generated = text
        it.sha256 = hashlib.sha256(it.text.encode()).hexdigest()
        items.append(it)
        gen_chunks.append((text, ("item", len(items) - 1)))
    gen_chunks.append((tmpl[pos:], ("tmpl", tline)))
    generated = "".join(c[0] for c in gen_chunks)
    # line map: generated line -> origin description
    linemap = []
    for (text, origin) in gen_chunks:
        n = text.count("\n")
        if origin[0] == "tmpl":
            for k in range(n):
                linemap.append(("tmpl", origin[1] + k))
        else:
            it = items[origin[1]]
            # approximate: walk the rendered parts
            cur = []
            for (tag, chunk, line) in it.render():
                chunk = chunk.replace("/*@loop*/", "").replace("/*@body*/", "").replace("/*@pre*/", "")
                for k in range(chunk.count("\n")):
                    cur.append(("repo" if tag == "src" else tag, it.relpath, line + (k if tag == "src" else 0), origin[1]))
            cur = cur[:n] + [cur[-1] if cur else ("repo", it.relpath, it.line0, origin[1])] * max(0, n - len(cur))
            linemap.extend(cur)
    return {"generated": generated, "items": items, "linemap": linemap}


# --------------------------------------------------------------------------------------------------
# Running Verus and deciding
# --------------------------------------------------------------------------------------------------

SEMANTIC = [
    "postcondition not satisfied", "precondition not satisfied", "assertion failed",
    "invariant not satisfied", "possible arithmetic underflow/overflow", "possible division by zero",
    "decreases not satisfied", "recommendation not met", "index out of bounds", "possible out-of-bounds",
    "unreachable", "might not be allowed", "constructed value may fail", "possible bit shift",
    "could not prove termination", "possible truncation", "failed this",
    "unable to prove post-condition of closure", "unable to prove pre-condition of closure",
]
UNDECIDED = ["Resource limit (rlimit) exceeded", "rlimit"]

FN_RE = re.compile(r"\b(?:proof\s+|spec\s+|exec\s+|open\s+|closed\s+|pub\s+|broadcast\s+|uninterp\s+|axiom\s+)*fn\s+([A-Za-z_][A-Za-z0-9_]*)")


def fn_table(generated):
    """(name, start_line, end_line, qualified) for every fn in the generated file"""
    m = mask(generated)
    res = []
    # containers: impl / trait blocks for qualification
    conts = []
    for mo in re.finditer(r"\b(impl|trait)\b[^{;]*\{", m):
        try:
            e = match_brace(m, mo.end() - 1)
        except Undecided:
            continue
        hdr = norm(generated[mo.start():mo.end() - 1])
        conts.append((mo.start(), e, hdr))
    for mo in re.finditer(r"\bfn\s+([A-Za-z_][A-Za-z0-9_]*)", m):
        j, par = mo.end(), 0
        bo, e = None, None
        while j < len(m):
            ch = m[j]
            if ch in "([":
                par += 1
            elif ch in ")]":
                par -= 1
            elif ch == "{" and par == 0:
                # a brace group at top level: either part of a requires/ensures expression or the body
                close = match_brace(m, j)
                nxt = re.match(r"\s*(\S{0,3})", m[close + 1:close + 40])
                tok = nxt.group(1) if nxt else ""
                cont = tok[:1] in list(",=&|).?+-*/<>:{") or re.match(r"(els|dec|ens|req|rec|by\b|via|ope|inv|no_)", tok) is not None
                if cont:
                    j = close + 1
                    continue
                bo, e = j, close
                break
            elif ch == ";" and par == 0:
                break
            j += 1
        if bo is None:
            e = j
        qual = ""
        for (cs, ce, hdr) in conts:
            if cs < mo.start() < ce:
                qual = hdr
        l0 = generated.count("\n", 0, mo.start()) + 1
        l1 = generated.count("\n", 0, e) + 1
        # qualifiers / attributes in front of `fn`
        k = mo.start()
        while k > 0 and m[k - 1] not in ";{}":
            k -= 1
        pre = generated[k:mo.start()]
        mode = "spec" if re.search(r"\bspec\b", pre) else ("proof" if re.search(r"\b(proof|axiom)\b", pre) else "exec")
        trusted = "external_body" in pre or "external" in pre or re.search(r"\b(axiom|uninterp)\b", pre) is not None
        res.append({"name": mo.group(1), "l0": l0, "l1": l1, "in": qual, "has_body": bo is not None,
                    "mode": mode, "trusted": bool(trusted)})
    return res


def short_qual(hdr):
    if not hdr:
        return ""
    mo = re.search(r"\bfor\s+(&?\s*[A-Za-z_][A-Za-z0-9_]*)", hdr)
    if mo:
        tr = re.search(r"impl(?:<.*?>)?\s+([A-Za-z_][A-Za-z0-9_:]*)", hdr)
        return "<%s as %s>" % (mo.group(1), tr.group(1) if tr else "?")
    mo = re.match(r"(impl|trait)(?:<.*?>)?\s+([A-Za-z_&][A-Za-z0-9_]*)", hdr)
    return mo.group(2) if mo else hdr


def run_verus(path, rlimit=None, extra=None, timeout=600):
    cmd = ["verus", path, "--output-json", "--time", "--error-format=json", "--multiple-errors", "4"]
    if rlimit:
        cmd += ["--rlimit", str(rlimit)]
    if extra:
        cmd += extra
    t0 = time.time()
    try:
        p = subprocess.run(cmd, capture_output=True, text=True, timeout=timeout, cwd=os.path.dirname(path))
    except subprocess.TimeoutExpired:
        return {"timeout": True, "cmd": " ".join(cmd), "wall": time.time() - t0}
    res = {"cmd": " ".join(cmd), "rc": p.returncode, "wall": time.time() - t0, "diags": [], "raw_err": p.stderr}
    try:
        res["json"] = json.loads(p.stdout[p.stdout.index("{"):])
    except Exception:
        res["json"] = None
    for ln in p.stderr.splitlines():
        ln = ln.strip()
        if ln.startswith("{"):
            try:
                d = json.loads(ln)
            except Exception:
                continue
            if d.get("$message_type") == "diagnostic" or "message" in d:
                res["diags"].append(d)
    return res


def classify(msg):
    for s in UNDECIDED:
        if s in msg:
            return "undecided"
    for s in SEMANTIC:
        if s in msg:
            return "semantic"
    return "other"


def verify_unit(unit, workdir, repo=REPO, rlimit=None):
    """Extract + verify one unit. Returns a result dict; raises Undecided."""
    unit_path = os.path.join(HERE, "units", unit + ".vrs")
    built = build_unit(unit_path, repo)
    os.makedirs(workdir, exist_ok=True)
    gpath = os.path.join(workdir, unit + ".rs")
    open(gpath, "w").write(built["generated"])
    r = run_verus(gpath, rlimit=rlimit)
    if r.get("timeout"):
        raise Undecided("verus timeout on unit %s" % unit)
    fns = fn_table(built["generated"])
    linemap = built["linemap"]

    def origin(line):
        if 1 <= line <= len(linemap):
            return linemap[line - 1]
        return ("tmpl", line)

    def fn_at(line):
        best = None
        for f in fns:
            if f["l0"] <= line <= f["l1"]:
                if best is None or f["l0"] >= best["l0"]:
                    best = f
        return best

    failures, others = [], []
    for d in r["diags"]:
        if d.get("level") != "error":
            continue
        msg = d.get("message", "")
        if msg.startswith("aborting due to"):
            continue
        kind = classify(msg)
        spans = d.get("spans", [])
        # spans inside macro expansions (matches!, assert!) may point into other files: only those of the generated file count
        own = [s for s in spans if os.path.basename(s.get("file_name", "")) == os.path.basename(gpath)]
        spans = own or spans
        prim = [s for s in spans if s.get("is_primary")] or spans
        line = prim[0]["line_start"] if prim else 0
        # the function that owns the failure: for a failed postcondition the primary span is the
        # ensures clause (same fn); for a failed precondition the primary span is the callee's
        # requires clause and the secondary span the call site -> use the call site.
        own_line = line
        sec = [s for s in spans if not s.get("is_primary")]
        clause_span = prim[0] if prim else None
        if "postcondition" in msg and sec:
            own_line = sec[0]["line_start"]       # primary = ensures clause, secondary = end of the body
        elif "precondition" in msg and sec:
            clause_span = sec[0]                  # primary = call site, secondary = the failed requires
        f = fn_at(own_line)
        o = origin(own_line)
        clause = ""
        if clause_span and clause_span.get("text"):
            t = clause_span["text"][0]
            clause = t["text"][t["highlight_start"] - 1:t["highlight_end"] - 1].strip()
            if clause_span["line_end"] != clause_span["line_start"]:
                clause = norm(" ".join(x["text"] for x in clause_span["text"]))[:200]
        rec = {"message": msg, "kind": kind, "gen_line": line, "fn": f["name"] if f else None,
               "fn_in": short_qual(f["in"]) if f else "", "origin": o, "clause": clause,
               "rendered": d.get("rendered", "")}
        (failures if kind in ("semantic", "undecided") else others).append(rec)
    j = r.get("json") or {}
    vr = j.get("verification-results", {})
    breakdown = []
    try:
        for mod in j["times-ms"]["smt"]["smt-run-module-times"]:
            breakdown.extend(mod.get("function-breakdown", []))
    except Exception:
        pass
    return {"unit": unit, "gpath": gpath, "built": built, "run": r, "fns": fns, "failures": failures,
            "others": others, "verified": vr.get("verified", 0), "errors": vr.get("errors", 0),
            "vir_error": vr.get("encountered-vir-error", False), "breakdown": breakdown,
            "smt_ms": (j.get("times-ms", {}).get("smt", {}) or {}).get("total", 0)}


def trusted_scan(generated):
    """mechanical scan for every assumption in the generated file"""
    res = []
    m = mask(generated)
    lines = generated.split("\n")
    for i, ln in enumerate(m.split("\n")):
        for kw in ("assume(", "admit(", "external_body", "assume_specification", "external_type_specification",
                   "external_trait_specification", "axiom fn", "uninterp spec fn", "external_fn_specification", "#[verifier::external]"):
            if kw in ln:
                # name: next fn / struct identifier on this or following lines
                ctx = " ".join(lines[i:i + 4])
                mo = re.search(r"\b(?:fn|struct|enum|trait|type)\s+([A-Za-z_][A-Za-z0-9_]*)", ctx)
                if kw == "assume_specification":
                    mo2 = re.search(r"assume_specification\s*(?:<[^\[]*>)?\s*\[\s*(.*?)\s*\]", ctx)
                    nm = norm(mo2.group(1)) if mo2 else (mo.group(1) if mo else "?")
                else:
                    nm = mo.group(1) if mo else "?"
                res.append("%s %s" % (kw.rstrip("("), nm))
    seen, out = set(), []
    for x in res:
        if x not in seen:
            seen.add(x)
            out.append(x)
    return out


if __name__ == "__main__":
    # debugging aid: python3 vx.py <unit> [--gen-only]
    unit = sys.argv[1]
    wd = os.environ.get("VX_WORK", "/verif/.work/vx")
    try:
        if "--gen-only" in sys.argv:
            b = build_unit(os.path.join(HERE, "units", unit + ".vrs"))
            os.makedirs(wd, exist_ok=True)
            open(os.path.join(wd, unit + ".rs"), "w").write(b["generated"])
            print("generated", os.path.join(wd, unit + ".rs"))
            sys.exit(0)
        res = verify_unit(unit, wd)
    except Undecided as e:
        print("UNDECIDED:", e)
        sys.exit(2)
    print("verified=%d errors=%d wall=%.1fs smt=%dms" % (res["verified"], res["errors"], res["run"]["wall"], res["smt_ms"]))
    for f in res["failures"]:
        print("FAIL [%s] %s::%s  %s  | %s | origin=%s" % (f["kind"], f["fn_in"], f["fn"], f["message"], f["clause"], f["origin"]))
    for f in res["others"]:
        print("OTHER", f["message"], "gen_line", f["gen_line"])
        print(f["rendered"])
    if not res["run"].get("json"):
        print(res["run"]["raw_err"][-3000:])
