#!/usr/bin/env python3
"""tools/patch_eval.py <patch.diff>: apply the patch to a scratch copy of /repo and run the quick check of every property
whose units extract from a file the patch touches; prints one line per property (rc 0 OK / 1 VIOLATION / 2 UNDECIDED)."""
import os, re, shutil, subprocess, sys
sys.path.insert(0, "/verif")
import props
patch = os.path.abspath(sys.argv[1])
files = set(re.findall(r"^\+\+\+ b/(\S+)", open(patch).read(), re.M))
units = set()
for u in os.listdir("/verif/vx/units"):
    t = open(os.path.join("/verif/vx/units", u)).read()
    if any(f in t for f in files):
        units.add(u[:-4])
# preludes that extract (matcher_trait) count for every unit including them
pids = []
for pid, spec in sorted(props.PROPS.items()):
    us = [x if isinstance(x, str) else x[0] for x in spec.get("units", [])]
    if units & set(us) or any(f.endswith(("meta_var.rs", "replacer.rs", "nth_child.rs", "source.rs", "transformation.rs", "template.rs", "indent.rs")) for f in files) and spec.get("kani"):
        pids.append(pid)
scratch = "/tmp/pe_repo_%d" % os.getpid()
subprocess.run(["rsync", "-a", "--exclude=/target", "--exclude=/.git", "--exclude=/npm", "/repo/", scratch + "/"], check=True)
r = subprocess.run(["patch", "-p1", "-s", "-d", scratch, "-i", patch])
if r.returncode != 0:
    print("PATCH-FAIL"); shutil.rmtree(scratch, ignore_errors=True); sys.exit(9)
env = dict(os.environ, VERIF_REPO=scratch, VERIF_KANI_WORK="/verif/.work/kani_mut")
worst = 0
for pid in pids:
    p = subprocess.run(["./check", pid, "quick"], cwd="/verif", capture_output=True, text=True, env=env)
    lines = [l[:230] for l in p.stdout.splitlines() if l.startswith(("VIOLATION", "UNDECIDED", "OK"))]
    print(pid, "rc", p.returncode, lines[:2])
    worst = max(worst, p.returncode if p.returncode in (1, 2) else 0)
shutil.rmtree(scratch, ignore_errors=True)
print("units:", sorted(units), "props:", pids)
