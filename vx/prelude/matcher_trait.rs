// ---- the central contract (DESIGN section 3) -----------------------------------------------------
/// post-condition of every `match_node_with_env`: the result and the final environment are exactly
/// what the reference semantics `spec_match` says; in particular a failed match leaves the
/// environment untouched (C04 frame law).
pub open spec fn matcher_post(sem: Option<(GNode, GEnv)>, r: Option<GNode>, env0: GEnv, env1: GEnv) -> bool {
    match sem {
        None => r is None && env1 == env0,
        Some((n, e)) => r == Some(n) && env1 == e,
    }
}

pub open spec fn opt_view<'t, D: Doc>(r: Option<Node<'t, D>>) -> Option<GNode> {
    match r { Some(n) => Some(n@), None => None }
}

/*@extract crates/core/src/matcher.rs :: trait Matcher
only match_node_with_env,potential_kinds,get_match_len
ret match_node_with_env r
sig match_node_with_env <<<
    ensures matcher_post(self.spec_match(_node@, cow_env(*old(_env))), opt_view(r), cow_env(*old(_env)), cow_env(*final(_env)))
>>>
before match_node_with_env "fn match_node_with_env" <<<
  /// reference semantics of this matcher on (node, env): None = no match, Some((n, e)) = match
  /// reporting node n with environment e
  spec fn spec_match(&self, node: GNode, env: GEnv) -> Option<(GNode, GEnv)>;
>>>
ret get_match_len ml
sig get_match_len <<<
    // C03: the length reported for the matched prefix never exceeds the node
    ensures ml matches Some(l) ==> _node@.start + l <= _node@.end
>>>
ret potential_kinds k
sig potential_kinds <<<
    ensures k matches Some(s) ==> forall|n: GNode, e: GEnv| #[trigger] self.spec_match(n, e) is Some ==> s@.contains(n.kind)
>>>
@*/

