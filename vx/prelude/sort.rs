// ===== T-std: sort_by_key / sort_unstable_by_key (R3 sort-by-key-stmt) =====
/// the order of Strings (std `Ord for String`: by content)
pub uninterp spec fn id_le(a: Seq<char>, b: Seq<char>) -> bool;
/// std Ord of the key types a sort may use (bool: false < true; tuples: lexicographic; &String: `id_le`)
pub trait VxOrd: Sized { spec fn vx_ord_le(self, other: Self) -> bool; }
impl VxOrd for bool { open spec fn vx_ord_le(self, other: bool) -> bool { !self || other } }
impl<'a> VxOrd for &'a String { open spec fn vx_ord_le(self, other: &'a String) -> bool { id_le(self@, other@) } }
impl<A: VxOrd, B: VxOrd> VxOrd for (A, B) { open spec fn vx_ord_le(self, other: (A, B)) -> bool { (self.0.vx_ord_le(other.0) && self.0 != other.0) || (self.0 == other.0 && self.1.vx_ord_le(other.1)) } }
/// `v.sort_by_key(|x| KEY)` / `sort_unstable_by_key`: a permutation, ascending in exactly that key (`le` = |a, b| KEY[a] <= KEY[b])
#[verifier::external_body]
pub fn vx_sort_by<T>(v: &mut Vec<T>, Ghost(le): Ghost<spec_fn(T, T) -> bool>)
    ensures final(v)@.len() == old(v)@.len(), final(v)@.to_multiset() == old(v)@.to_multiset(),
            forall|i: int, j: int| 0 <= i < j < final(v)@.len() ==> #[trigger] le(final(v)@[i], final(v)@[j])
{ unimplemented!() }
/// mapping two listings of the same multiset gives listings of the same multiset
pub proof fn lemma_map_multiset<A, B>(a: Seq<A>, b: Seq<A>, f: spec_fn(A) -> B)
    requires a.to_multiset() == b.to_multiset()
    ensures a.map_values(f).to_multiset() == b.map_values(f).to_multiset()
    decreases a.len()
{
    a.to_multiset_ensures(); b.to_multiset_ensures();
    if a.len() == 0 {
        assert(b.len() == 0);
        assert(a.map_values(f) =~= b.map_values(f));
    } else {
        let x = a.last(); let a1 = a.drop_last();
        assert(a =~= a1.push(x));
        a1.to_multiset_ensures();
        assert(a.to_multiset().count(x) > 0);
        assert(b.to_multiset().count(x) > 0);
        assert(b.contains(x));
        let k = choose|k: int| 0 <= k < b.len() && b[k] == x;
        let b1 = b.remove(k);
        b1.to_multiset_ensures();
        assert(b1.to_multiset() =~= b.to_multiset().remove(x));
        assert(a1.to_multiset() =~= a.to_multiset().remove(x));
        lemma_map_multiset(a1, b1, f);
        assert(a.map_values(f) =~= a1.map_values(f).push(f(x)));
        assert(b.map_values(f) =~= b1.map_values(f).insert(k, f(x)));
        let ma = a1.map_values(f); let mb = b1.map_values(f);
        ma.to_multiset_ensures(); mb.to_multiset_ensures();
        assert(b1.len() == b.len() - 1);
        assert(0 <= k <= mb.len());
        assert(ma.push(f(x)).to_multiset() =~= ma.to_multiset().insert(f(x)));
        vstd::seq_lib::to_multiset_insert(mb, k, f(x));
        assert(mb.insert(k, f(x)).to_multiset() =~= mb.to_multiset().insert(f(x)));
    }
}
