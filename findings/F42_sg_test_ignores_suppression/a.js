// ast-grep-ignore
console.log(1)
