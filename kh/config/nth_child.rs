// Kani harnesses for crates/config/src/rule/nth_child.rs (child module of the real file, scratch copy only)
use super::*;

/// Reference for "An+B selects the 1-based index i iff i = A*n + B for some n >= 0", written over
/// magnitudes (no signed division): with d = i - B, there is such an n iff d == 0, or A != 0,
/// d and A have the same sign and |A| divides |d|.
fn reference(step: i32, offset: i32, index: usize) -> bool {
  let i = index as u64 + 1;
  let (d_neg, d_abs) = if offset >= 0 {
    let o = offset as u64;
    if i >= o { (false, i - o) } else { (true, o - i) }
  } else {
    (false, i + offset.unsigned_abs() as u64)
  };
  if d_abs == 0 {
    return true;
  }
  if step == 0 {
    return false;
  }
  let s_neg = step < 0;
  let s_abs = step.unsigned_abs() as u64;
  d_neg == s_neg && d_abs % s_abs == 0
}

/// loop-free, full domain (i32 x i32 x usize): a complete proof, no bound
#[kani::proof]
fn is_matched_full_domain() {
  let step_size: i32 = kani::any();
  let offset: i32 = kani::any();
  let index: usize = kani::any();
  // domain: tree-sitter counts the children of a node in u32, so a sibling index fits u32
  kani::assume(index <= u32::MAX as usize);
  let p = FunctionalPosition { step_size, offset };
  let got = p.is_matched(index);
  assert!(got == reference(step_size, offset, index));
}

/// when is_matched says yes, the witness n = (i - B) / A is non-negative and reproduces i
#[kani::proof]
fn is_matched_witness() {
  let step_size: i32 = kani::any();
  let offset: i32 = kani::any();
  let index: usize = kani::any();
  kani::assume(step_size != 0);
  kani::assume(index <= u32::MAX as usize);
  let p = FunctionalPosition { step_size, offset };
  if p.is_matched(index) {
    let i = index as i64 + 1;
    let n = (i - offset as i64) / step_size as i64;
    assert!(n >= 0);
    assert!(step_size as i64 * n + offset as i64 == i);
  }
}

/// numeric position: accepted iff it fits, and then selects exactly that 1-based index
#[kani::proof]
#[kani::unwind(2)]
fn numeric_position_exact() {
  let n: usize = kani::any();
  let index: usize = kani::any();
  kani::assume(index <= u32::MAX as usize);
  let r = NthChildSimple::Numeric(n).try_parse();
  match &r {
    Ok(p) => {
      assert!(p.step_size == 0);
      assert!(p.offset as u128 == n as u128);
      assert!(p.is_matched(index) == (index as u128 + 1 == n as u128));
    }
    Err(_) => assert!(n > i32::MAX as usize),
  }
  // NthChildError is a recursive type (InvalidRule(Box<RuleSerializeError>)): its drop glue is an
  // unbounded recursion for CBMC, and irrelevant here
  std::mem::forget(r);
}

// ---- parse_an_b: bounded -----------------------------------------------------------------------
const ALPHA: [u8; 6] = [b'9', b'1', b'n', b'+', b'-', b' '];

/// Reference grammar from the CSS An+B micro-syntax as used by the docs, whitespace ignored anywhere:
///   [+-]? INT? [nN] ([+-] INT)?   |   [+-]? INT
/// returns None for a syntax error or a number that does not fit i32
fn ref_parse(s: &[u8]) -> Option<(i64, i64)> {
  // strip whitespace
  let mut t = [0u8; 16];
  let mut len = 0;
  let mut k = 0;
  while k < s.len() {
    if s[k] != b' ' {
      t[len] = s[k];
      len += 1;
    }
    k += 1;
  }
  let t = &t[..len];
  let mut i = 0;
  let mut sign: i64 = 1;
  if i < t.len() && (t[i] == b'+' || t[i] == b'-') {
    if t[i] == b'-' {
      sign = -1;
    }
    i += 1;
  }
  let mut num: i64 = 0;
  let mut digits = 0;
  while i < t.len() && t[i].is_ascii_digit() {
    num = num * 10 + (t[i] - b'0') as i64;
    if num > i32::MAX as i64 {
      return None;
    }
    digits += 1;
    i += 1;
  }
  if i == t.len() {
    return if digits > 0 { Some((0, sign * num)) } else { None };
  }
  if t[i] != b'n' && t[i] != b'N' {
    return None;
  }
  i += 1;
  let step = if digits > 0 { sign * num } else { sign };
  if i == t.len() {
    return Some((step, 0));
  }
  if t[i] != b'+' && t[i] != b'-' {
    return None;
  }
  let sign2: i64 = if t[i] == b'-' { -1 } else { 1 };
  i += 1;
  let mut num2: i64 = 0;
  let mut digits2 = 0;
  while i < t.len() && t[i].is_ascii_digit() {
    num2 = num2 * 10 + (t[i] - b'0') as i64;
    if num2 > i32::MAX as i64 {
      return None;
    }
    digits2 += 1;
    i += 1;
  }
  if i != t.len() || digits2 == 0 {
    return None;
  }
  Some((step, sign2 * num2))
}

fn check_parse<const N: usize>() {
  let mut buf = [0u8; N];
  let len: usize = kani::any();
  kani::assume(len <= N);
  for i in 0..N {
    let k: usize = kani::any();
    kani::assume(k < ALPHA.len());
    buf[i] = ALPHA[k];
  }
  let s = unsafe { std::str::from_utf8_unchecked(&buf[..len]) };
  let got = parse_an_b(s); // must not panic / overflow
  let want = ref_parse(&buf[..len]);
  match (&got, want) {
    (Ok(p), Some((a, b))) => {
      assert!(p.step_size as i64 == a);
      assert!(p.offset as i64 == b);
    }
    (Err(_), None) => {}
    _ => assert!(false),
  }
  std::mem::forget(got); // recursive error type: skip the drop glue
}

#[kani::proof]
#[kani::unwind(6)]
fn parse_an_b_len4() {
  check_parse::<4>();
}

#[kani::proof]
#[kani::unwind(9)]
fn parse_an_b_len7() {
  check_parse::<7>();
}

/// C11: numbers that do not fit i32 (10-11 digits) are a syntax error, never an overflow
#[kani::proof]
#[kani::unwind(13)]
fn parse_an_b_len11() {
  let mut buf = [0u8; 11];
  let len: usize = kani::any();
  kani::assume(len <= 11);
  for i in 0..11 {
    let k: u8 = kani::any();
    kani::assume(k < 3);
    buf[i] = [b'9', b'1', b'n'][k as usize];
  }
  let s = unsafe { std::str::from_utf8_unchecked(&buf[..len]) };
  let got = parse_an_b(s); // must not panic / overflow
  if let Ok(p) = &got {
    // an accepted all-digit string is a number that fits
    let mut all_digits = len > 0;
    let mut v: i64 = 0;
    let mut i = 0;
    while i < len {
      if buf[i] == b'n' { all_digits = false; } else { v = v * 10 + (buf[i] - b'0') as i64; }
      i += 1;
    }
    if all_digits { assert!(v <= i32::MAX as i64 && p.offset as i64 == v && p.step_size == 0); }
  }
  std::mem::forget(got);
}
