#!/bin/bash
# run every registered check once, report exit codes and wall time
cd /verif
tier=${1:-quick}
for id in $(python3 -c "import props; print(' '.join(sorted(props.PROPS)))"); do
  s=$(date +%s)
  out=$(./check $id $tier 2>&1); rc=$?
  e=$(date +%s)
  echo "$id rc=$rc $((e-s))s :: $(echo "$out" | grep -E 'OK|VIOLATION|UNDECIDED|KNOWN' | cut -c1-220 | tr '\n' '|')"
done
