"""Property -> machinery map (read by ./check).  See DESIGN.md section 4 for the clause-level story."""

def K(crate, name, what, bound=None, complete=False, tier="quick"):
    return {"crate": crate, "name": name, "what": what, "bound": bound, "complete": complete, "tier": tier}

PROPS = {
    "C10": {
        "units": ["source"],
        "kani": [],
        "decided": ["position_for_offset(input, o) == (count of '\\n' in input[..o], bytes since the last '\\n') for every input and offset"],
        "not_decided": ["tree-sitter re-parse with a correctly edited old tree equals a fresh parse (assumed contract of the dependency)"],
        "assumptions": ["tree_sitter::Point is a plain (row, column) carrier"],
    },
    "C20": {
        "units": [],
        "kani": [K("core", "extract_meta_var_len4", "extract_meta_var over {$,A,_,1,a}^<=4 against the spelling table of the property", bound="strings over {$,A,_,1,a}, length <= 4"),
                 K("core", "extract_meta_var_len6", "same, length <= 6", bound="strings over {$,A,_,1,a}, length <= 6", tier="thorough")],
        "decided": ["extract_meta_var spelling table"],
        "not_decided": ["the hole appears in the parsed pattern tree of each of the 23 languages (needs the C parsers)"],
        "assumptions": [],
    },
}

NOT_APPLICABLE = {
    "C02": "needs two tree-sitter parses (23 C grammars behind FFI) to agree and total correctness of the Peekable alignment loop; no contract within reach of Verus/Kani expresses it (DESIGN 4.C02)",
    "C09": "equality of the outputs of five front-end programs and an LSP notification history (async tower-lsp + DashMap): outside both verifiers (DESIGN 4.C09)",
    "C17": "thread schedules of the walker/printer: Kani has no threads, Verus would need the code rewritten into its permission types (DESIGN 4.C17)",
}
# properties not yet wired are listed as not applicable until their check exists
for _i in range(1, 21):
    _k = "C%02d" % _i
    if _k not in PROPS and _k not in NOT_APPLICABLE:
        NOT_APPLICABLE[_k] = "check not built yet (work in progress)"
