#!/usr/bin/env python3
"""kani_run.py -- engine K: Kani on the real crates.

A scratch copy of /repo's CURRENT working tree is kept under /verif/.work/kani/src (rsync, mtimes
preserved so that cargo rebuilds only what changed; rebuilt from nothing when missing).  The files
named in kh/inject.json get ONE appended line

    #[cfg(kani)] #[path = "/verif/kh/<crate>/<module>.rs"] mod verif_kani;

(only in the scratch copy; /repo is never written).  A child module sees the private items of its
parent, so the harnesses call the real, unmodified functions.  cfg(kani) is set only by Kani's driver.
"""
import fcntl
import json
import os
import re
import subprocess
import sys
import time

REPO = os.environ.get("VERIF_REPO", "/repo")
HERE = os.path.dirname(os.path.abspath(__file__))
WORK = os.environ.get("VERIF_KANI_WORK", "/verif/.work/kani")
PKG = {"core": "ast-grep-core", "config": "ast-grep-config", "language": "ast-grep-language", "cli": "ast-grep"}


class Undecided(Exception):
    pass


def sync():
    src = os.path.join(WORK, "src")
    os.makedirs(src, exist_ok=True)
    inject = json.load(open(os.path.join(HERE, "inject.json")))
    excl = ["--exclude=/target", "--exclude=/.git", "--exclude=/npm", "--exclude=/benches/fixtures"]
    for rel in inject:
        excl.append("--exclude=/" + rel)
    subprocess.run(["rsync", "-a", "--delete"] + excl + [REPO + "/", src + "/"], check=True)
    for rel, h in inject.items():
        p = os.path.join(REPO, rel)
        if not os.path.exists(p):
            raise Undecided("LOST-ANCHOR: %s missing" % rel)
        want = open(p).read()
        if not want.endswith("\n"):
            want += "\n"
        want += '#[cfg(kani)] #[path = "%s"] mod verif_kani;\n' % os.path.join(HERE, h)
        dst = os.path.join(src, rel)
        cur = open(dst).read() if os.path.exists(dst) else None
        # the harness file is outside the scratch tree: touch the parent when it changed
        hm = os.path.getmtime(os.path.join(HERE, h))
        if cur != want or os.path.getmtime(dst) < hm:
            os.makedirs(os.path.dirname(dst), exist_ok=True)
            open(dst, "w").write(want)
    return src


def run(crate, harnesses, timeout=1800, extra=None, jobs=None):
    """run the given harnesses of one crate; returns {harness: {status, checks, failed, time, failures[]}}"""
    os.makedirs(WORK, exist_ok=True)
    lock = open(os.path.join(WORK, "lock"), "w")
    fcntl.flock(lock, fcntl.LOCK_EX)
    try:
        src = sync()
        env = dict(os.environ)
        env["CARGO_NET_OFFLINE"] = "true"
        env["CARGO_TARGET_DIR"] = os.path.join(WORK, "target")
        cmd = ["cargo", "kani", "-p", PKG[crate], "-Z", "function-contracts", "-Z", "stubbing"]
        if jobs and jobs > 1:
            cmd += ["-j", str(jobs), "--output-format", "terse"]
        for h in harnesses:
            cmd += ["--harness", h]
        cmd += ["--exact"] if False else []
        cmd += extra or []
        t0 = time.time()
        import signal
        import tempfile
        fo = tempfile.TemporaryFile(mode="w+")
        def _limits():
            # a CBMC that needs more than this is reported as undecided (never let one harness take the machine down)
            import resource
            cap = int(os.environ.get("VERIF_CBMC_MEM_GB", "18")) * (1 << 30)
            resource.setrlimit(resource.RLIMIT_AS, (cap, cap))
        pr = subprocess.Popen(cmd, cwd=src, env=env, stdout=fo, stderr=subprocess.STDOUT, text=True, start_new_session=True,
                              preexec_fn=_limits)
        try:
            pr.wait(timeout=timeout)
        except subprocess.TimeoutExpired:
            try:
                os.killpg(pr.pid, signal.SIGKILL)
            except ProcessLookupError:
                pass
            pr.wait()
            fo.seek(0)
            return {"_meta": {"cmd": " ".join(cmd), "timeout": True, "wall": time.time() - t0, "out": fo.read()[-4000:]}}
        fo.seek(0)

        class P:
            pass
        p = P()
        p.stdout, p.stderr, p.returncode = fo.read(), "", pr.returncode
        out = p.stdout + "\n" + p.stderr
        res = parse(out)
        res["_meta"] = {"cmd": " ".join(cmd), "rc": p.returncode, "wall": time.time() - t0, "out_tail": out[-6000:]}
        return res
    finally:
        fcntl.flock(lock, fcntl.LOCK_UN)


def parse(out):
    """per-harness results; with -j the blocks of different threads interleave: regroup them by thread"""
    if re.search(r"(?m)^Thread \d+: ", out):
        chunks = re.split(r"(?m)^(Thread \d+): ", out)
        per = {}
        order = []
        for i in range(1, len(chunks), 2):
            t, body = chunks[i], chunks[i + 1]
            if t not in per:
                per[t] = ""
                order.append(t)
            per[t] += body
        # a thread runs several harnesses one after the other: keep textual order inside the thread
        out = "\n".join(per[t] for t in order)
    res = {}
    blocks = re.split(r"(?m)^Checking harness ", out)
    for b in blocks[1:]:
        name = b.split("...", 1)[0].strip()
        short = name.split("::")[-1]
        r = {"full": name, "status": "UNKNOWN", "failures": []}
        mo = re.search(r"VERIFICATION:- (\w+)", b)
        if mo:
            r["status"] = mo.group(1)
        if "CBMC failed" in b or "out of memory" in b or "CBMC timed out" in b:
            r["status"] = "UNDECIDED"
            r["reason"] = "CBMC failed / out of memory"
        mo = re.search(r"\*\* (\d+) of (\d+) failed", b)
        if mo:
            r["failed"], r["checks"] = int(mo.group(1)), int(mo.group(2))
        mo = re.search(r"Verification Time: ([0-9.]+)s", b)
        if mo:
            r["time"] = float(mo.group(1))
        for fm in re.finditer(r"Failed Checks: (.*)\n\s*File: \"([^\"]*)\", line (\d+), in (\S+)", b):
            r["failures"].append({"desc": fm.group(1).strip(), "file": fm.group(2), "line": int(fm.group(3)), "fn": fm.group(4)})
        for fm in re.finditer(r"Check \d+: (\S+)\n\s+- Status: FAILURE\n\s+- Description: \"([^\"]*)\"\n\s+- Location: (\S+)", b):
            r["failures"].append({"desc": fm.group(2), "check": fm.group(1), "loc": fm.group(3)})
        pb = re.search(r"Concrete playback unit test for `[^`]*`:\n```\n(.*?)```", b, re.S)
        if pb:
            r["playback"] = pb.group(1)
        res[short] = r
    return res


if __name__ == "__main__":
    crate = sys.argv[1]
    hs = sys.argv[2].split(",")
    r = run(crate, hs, extra=sys.argv[3:], timeout=int(os.environ.get("KANI_TIMEOUT", "600")))
    meta = r.pop("_meta")
    print(json.dumps(r, indent=1))
    print(meta.get("cmd"), "rc", meta.get("rc"), "wall %.1f" % meta.get("wall", 0))
    if not r:
        print(meta.get("out_tail") or meta.get("out"))
