// Kani harnesses for crates/core/src/meta_var.rs (child module: sees private items of the parent).
// Included by the line `#[cfg(kani)] #[path = "/verif/kh/core/meta_var.rs"] mod verif_kani;`
// that kani_run.py appends to the scratch copy of meta_var.rs (never to /repo itself).
use super::*;

const ALPHA: [u8; 5] = [b'$', b'A', b'_', b'1', b'a'];

fn any_alpha_string<const N: usize>(buf: &mut [u8; N]) -> &str {
  let len: usize = kani::any();
  kani::assume(len <= N);
  for i in 0..N {
    let k: usize = kani::any();
    kani::assume(k < ALPHA.len());
    buf[i] = ALPHA[k];
  }
  // ASCII only, hence valid UTF-8
  unsafe { std::str::from_utf8_unchecked(&buf[..len]) }
}

fn is_first(b: u8) -> bool {
  b.is_ascii_uppercase() || b == b'_'
}
fn is_rest(b: u8) -> bool {
  is_first(b) || b.is_ascii_digit()
}

/// Reference written from the property text (C20): `$A` named capture, `$$A` any-node capture,
/// `$_`/`$$_` non-capturing, `$$$` / `$$$_..` anonymous ellipsis, `$$$A` named ellipsis; names are
/// [A-Z_][A-Z_0-9]*; everything else is not a hole.
/// returns (class, name_start) with class 0=None 1=Capture(named) 2=Capture(unnamed) 3=Dropped(named)
/// 4=Dropped(unnamed) 5=Multiple 6=MultiCapture
fn reference(s: &[u8], sigil: u8) -> (u8, usize) {
  let mut n = 0;
  while n < s.len() && n < 3 && s[n] == sigil {
    n += 1;
  }
  if n == 0 {
    return (0, 0);
  }
  let name = &s[n..];
  if n == 3 && name.is_empty() {
    return (5, 3);
  }
  if name.is_empty() || !is_first(name[0]) {
    return (0, 0);
  }
  let mut i = 0;
  while i < name.len() {
    if !is_rest(name[i]) {
      return (0, 0);
    }
    i += 1;
  }
  let dropped = name[0] == b'_';
  match (n, dropped) {
    (1, false) => (1, 1),
    (2, false) => (2, 2),
    (1, true) => (3, 1),
    (2, true) => (4, 2),
    (3, true) => (5, 3),
    (3, false) => (6, 3),
    _ => (0, 0),
  }
}

fn classify(r: &Option<MetaVariable>) -> u8 {
  match r {
    None => 0,
    Some(MetaVariable::Capture(_, true)) => 1,
    Some(MetaVariable::Capture(_, false)) => 2,
    Some(MetaVariable::Dropped(true)) => 3,
    Some(MetaVariable::Dropped(false)) => 4,
    Some(MetaVariable::Multiple) => 5,
    Some(MetaVariable::MultiCapture(_)) => 6,
  }
}

fn check_extract<const N: usize>() {
  let mut buf = [0u8; N];
  let s = any_alpha_string(&mut buf);
  let got = extract_meta_var(s, '$');
  let (class, start) = reference(s.as_bytes(), b'$');
  assert!(classify(&got) == class);
  match &got {
    Some(MetaVariable::Capture(name, _)) | Some(MetaVariable::MultiCapture(name)) => {
      assert!(name.as_bytes() == &s.as_bytes()[start..]);
    }
    _ => {}
  }
}

#[kani::proof]
#[kani::unwind(6)]
fn extract_meta_var_len4() {
  check_extract::<4>();
}

#[kani::proof]
#[kani::unwind(8)]
fn extract_meta_var_len6() {
  check_extract::<6>();
}

/// the ellipsis spellings `$$$`, `$$$x`, `$$$xy` (x, y over the alphabet): cheap enough for the quick tier
#[kani::proof]
#[kani::unwind(7)]
fn extract_meta_var_ellipsis5() {
  let mut buf = [b'$'; 5];
  let len: usize = kani::any();
  kani::assume(3 <= len && len <= 5);
  for i in 3..5 {
    let k: usize = kani::any();
    kani::assume(k < ALPHA.len());
    buf[i] = ALPHA[k];
  }
  let s = unsafe { std::str::from_utf8_unchecked(&buf[..len]) };
  let got = extract_meta_var(s, '$');
  let (class, start) = reference(s.as_bytes(), b'$');
  assert!(classify(&got) == class);
  if let Some(MetaVariable::MultiCapture(name)) = &got {
    assert!(name.as_bytes() == &s.as_bytes()[start..]);
  }
}
