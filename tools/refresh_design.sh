#!/bin/bash
# tools/refresh_design.sh: regenerate the generated sections of DESIGN.md (as-built from props.py, seed table from seeded/)
cd /verif
python3 - <<'PY'
import subprocess, re
s = open("DESIGN.md").read()
def put(s, tag, text):
    a = "<!-- %s-begin -->" % tag; b = "<!-- %s-end -->" % tag
    i = s.index(a) + len(a); j = s.index(b)
    return s[:i] + "\n" + text.strip("\n") + "\n" + s[j:]
s = put(s, "asbuilt", subprocess.run(["python3", "tools/asbuilt.py"], capture_output=True, text=True).stdout)
try:
    t = subprocess.run(["python3", "tools/seed_table.py"], capture_output=True, text=True)
    if t.returncode == 0 and t.stdout.strip():
        s = put(s, "seed-table", t.stdout)
except Exception as e:
    print("seed table not refreshed:", e)
open("DESIGN.md", "w").write(s)
PY
