foo(3)
